package main

import (
	"fmt"
	"strings"
)

// ---------------------------------------------------------------------------------------------
// Pointwise grounding: most tensor facts are "for every index J in bounds, el(o, J) = f(el(a, J), ...)" and most
// goals have the same form. The goal's index is Skolemised (J0) and every positively occurring universally
// quantified index fact is additionally instantiated at J0, so the common case becomes (nearly) quantifier-free.
// The original quantified facts are kept (other instances - proj, del, swap2 images - are still found by the solver).
// ---------------------------------------------------------------------------------------------

type sx_ struct {
	atom string
	kids []*sx_
}

func parseSexpr(s string) *sx_ {
	pos := 0
	var parse func() *sx_
	parse = func() *sx_ {
		for pos < len(s) && (s[pos] == ' ' || s[pos] == '\n' || s[pos] == '\t') {
			pos++
		}
		if pos >= len(s) {
			return nil
		}
		if s[pos] == '(' {
			pos++
			n := &sx_{kids: []*sx_{}}
			for {
				for pos < len(s) && (s[pos] == ' ' || s[pos] == '\n' || s[pos] == '\t') {
					pos++
				}
				if pos >= len(s) {
					return n
				}
				if s[pos] == ')' {
					pos++
					return n
				}
				k := parse()
				if k == nil {
					return n
				}
				n.kids = append(n.kids, k)
			}
		}
		start := pos
		for pos < len(s) && s[pos] != ' ' && s[pos] != '(' && s[pos] != ')' && s[pos] != '\n' && s[pos] != '\t' {
			pos++
		}
		return &sx_{atom: s[start:pos]}
	}
	return parse()
}

func (n *sx_) String() string {
	if n.kids == nil {
		return n.atom
	}
	var b strings.Builder
	b.WriteByte('(')
	for i, k := range n.kids {
		if i > 0 {
			b.WriteByte(' ')
		}
		b.WriteString(k.String())
	}
	b.WriteByte(')')
	return b.String()
}

func (n *sx_) head() string {
	if n.kids != nil && len(n.kids) > 0 && n.kids[0].kids == nil {
		return n.kids[0].atom
	}
	return ""
}

func (n *sx_) subst(v, by string) *sx_ {
	if n.kids == nil {
		if n.atom == v {
			return &sx_{atom: by}
		}
		return n
	}
	out := &sx_{kids: make([]*sx_, len(n.kids))}
	for i, k := range n.kids {
		out.kids[i] = k.subst(v, by)
	}
	return out
}

// idxForall recognises (forall ((v (Array Int Int))) body) and returns v and body (pattern annotations stripped).
func idxForall(n *sx_) (string, *sx_, bool) {
	if n.head() != "forall" || len(n.kids) != 3 {
		return "", nil, false
	}
	bs := n.kids[1]
	if bs.kids == nil || len(bs.kids) != 1 {
		return "", nil, false
	}
	b := bs.kids[0]
	if b.kids == nil || len(b.kids) != 2 || b.kids[1].String() != "(Array Int Int)" {
		return "", nil, false
	}
	body := n.kids[2]
	if body.head() == "!" && len(body.kids) >= 2 {
		body = body.kids[1]
	}
	return b.kids[0].atom, body, true
}

// instPositive replaces positively occurring index-quantified subformulas by their instance at j0.
// changed reports whether anything was instantiated.
func instPositive(n *sx_, j0 string, positive bool, changed *bool) *sx_ {
	if n.kids == nil {
		return n
	}
	if v, body, ok := idxForall(n); ok {
		if positive {
			*changed = true
			return instPositive(body.subst(v, j0), j0, positive, changed)
		}
		return n
	}
	switch n.head() {
	case "and", "or":
		out := &sx_{kids: []*sx_{n.kids[0]}}
		for _, k := range n.kids[1:] {
			out.kids = append(out.kids, instPositive(k, j0, positive, changed))
		}
		return out
	case "not":
		if len(n.kids) == 2 {
			return &sx_{kids: []*sx_{n.kids[0], instPositive(n.kids[1], j0, !positive, changed)}}
		}
	case "=>":
		if len(n.kids) == 3 {
			return &sx_{kids: []*sx_{n.kids[0], instPositive(n.kids[1], j0, !positive, changed), instPositive(n.kids[2], j0, positive, changed)}}
		}
	}
	return n
}

// groundGoal Skolemises the index of a goal of the form [A =>]* (forall ((J Idx)) C).
func groundGoal(goal string, j0 string) (string, bool) {
	n := parseSexpr(goal)
	if n == nil {
		return goal, false
	}
	var rec func(n *sx_) (*sx_, bool)
	rec = func(n *sx_) (*sx_, bool) {
		if v, body, ok := idxForall(n); ok {
			return body.subst(v, j0), true
		}
		if n.head() == "=>" && len(n.kids) == 3 {
			if b, ok := rec(n.kids[2]); ok {
				return &sx_{kids: []*sx_{n.kids[0], n.kids[1], b}}, true
			}
		}
		return n, false
	}
	out, ok := rec(n)
	if !ok {
		return goal, false
	}
	return out.String(), true
}

// groundObligation returns the extra declarations, the extra facts and the (possibly Skolemised) goal.
// replaced[i] is true when facts[i] contained an index-quantified subformula (its J0-instance is in extra).
func groundObligation(facts []string, goal string) (decl string, extra []string, newGoal string, replaced []bool) {
	const j0 = "J0!sk"
	replaced = make([]bool, len(facts))
	g, ok := groundGoal(goal, j0)
	if !ok {
		return "", nil, goal, replaced
	}
	decl = "(declare-fun " + j0 + " () (Array Int Int))\n"
	for i, f := range facts {
		if !strings.Contains(f, "(Array Int Int)))") {
			continue
		}
		n := parseSexpr(f)
		if n == nil {
			continue
		}
		changed := false
		out := instPositive(n, j0, true, &changed)
		if changed {
			extra = append(extra, out.String())
			replaced[i] = true
		}
	}
	return decl, extra, g, replaced
}

// incompletePattern reports a quantifier with an explicit trigger that does not mention all of its bound variables
// (solvers drop such quantifiers or reject the query; either way the fact would silently be lost).
func incompletePattern(f string) string {
	if !strings.Contains(f, ":pattern") {
		return ""
	}
	var bad string
	var walk func(n *sx_)
	collect := func(n *sx_, into map[string]bool) {
		var rec func(m *sx_)
		rec = func(m *sx_) {
			if m.kids == nil {
				into[m.atom] = true
				return
			}
			for _, k := range m.kids {
				rec(k)
			}
		}
		rec(n)
	}
	walk = func(n *sx_) {
		if n == nil || n.kids == nil || bad != "" {
			return
		}
		if n.head() == "forall" && len(n.kids) == 3 && n.kids[2].head() == "!" {
			ann := n.kids[2]
			for i := 2; i+1 < len(ann.kids); i += 2 {
				if ann.kids[i].kids == nil && ann.kids[i].atom == ":pattern" {
					seen := map[string]bool{}
					collect(ann.kids[i+1], seen)
					for _, b := range n.kids[1].kids {
						if len(b.kids) >= 1 && b.kids[0].kids == nil && !seen[b.kids[0].atom] {
							bad = fmt.Sprintf("trigger %s does not mention the bound variable %s", ann.kids[i+1].String(), b.kids[0].atom)
							return
						}
					}
				}
			}
		}
		for _, k := range n.kids {
			walk(k)
		}
	}
	walk(parseSexpr(f))
	return bad
}

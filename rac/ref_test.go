package rac

// Bounded stand-ins (runtime assertion checking) for the contracts that the deductive verifier assumes or cannot reach.
// Each test enumerates a stated finite domain through the PUBLIC API of the library, compares against an independent
// flat row-major reference implementation, and writes JSON lines to $RAC_OUT:
//   {"type":"fail","key":...,"detail":...}    one per violated case (key is stable: it names the case, not the values)
//   {"type":"summary","cases":N,"samples":[...]}
// They are labelled "bounded" in the evidence and never counted as proved.

import (
	"encoding/json"
	"fmt"
	"math"
	"math/rand"
	"os"
	"strconv"
	"sync"
	"testing"

	"github.com/sahandsafizadeh/qeep/tensor"
)

/* ---------------- reporting ---------------- */

type reporter struct {
	mu      sync.Mutex
	test    string
	cases   int
	fails   map[string]bool
	samples []string
	f       *os.File
}

func newReporter(test string) *reporter {
	r := &reporter{test: test, fails: map[string]bool{}}
	if p := os.Getenv("RAC_OUT"); p != "" {
		f, err := os.OpenFile(p, os.O_APPEND|os.O_CREATE|os.O_WRONLY, 0o644)
		if err == nil {
			r.f = f
		}
	}
	return r
}

func (r *reporter) emit(v any) {
	b, _ := json.Marshal(v)
	if r.f != nil {
		r.f.Write(append(b, '\n'))
	}
}

func (r *reporter) ok(sample string) {
	r.mu.Lock()
	r.cases++
	if len(r.samples) < 4 && sample != "" {
		r.samples = append(r.samples, sample)
	}
	r.mu.Unlock()
}

// fail records one violated case; the key identifies the case class so that known findings can be matched.
func (r *reporter) fail(key, detail string) {
	r.mu.Lock()
	defer r.mu.Unlock()
	r.cases++
	if r.fails[key] {
		return
	}
	r.fails[key] = true
	r.emit(map[string]any{"type": "fail", "test": r.test, "key": key, "detail": detail})
}

func (r *reporter) done(t *testing.T) {
	r.emit(map[string]any{"type": "summary", "test": r.test, "cases": r.cases, "failures": len(r.fails), "samples": r.samples})
	if r.f != nil {
		r.f.Close()
	}
	if len(r.fails) > 0 {
		t.Logf("%s: %d failing case classes out of %d cases", r.test, len(r.fails), r.cases)
	}
}

func thorough() bool { return os.Getenv("VERIF_TIER") == "thorough" }

func seed() int64 {
	if s := os.Getenv("VERIF_SEED"); s != "" {
		if n, err := strconv.ParseInt(s, 10, 64); err == nil {
			return n
		}
	}
	return 1
}

// guard converts a panic of the library into a failure of the case.
func guard(r *reporter, key string, f func()) {
	defer func() {
		if x := recover(); x != nil {
			r.fail(key+":panic", fmt.Sprint(x))
		}
	}()
	f()
}

/* ---------------- flat reference tensors ---------------- */

type Ref struct {
	Shape []int
	Data  []float64
}

func numel(shape []int) int {
	n := 1
	for _, d := range shape {
		n *= d
	}
	return n
}

func newRef(shape []int) Ref {
	return Ref{Shape: append([]int{}, shape...), Data: make([]float64, numel(shape))}
}

func (a Ref) at(idx []int) float64 { return a.Data[a.pos(idx)] }

func (a Ref) pos(idx []int) int {
	p := 0
	for k, d := range a.Shape {
		p = p*d + idx[k]
	}
	return p
}

// forEach calls f for every multi-index of shape in row-major order.
func forEach(shape []int, f func(idx []int)) {
	n := numel(shape)
	idx := make([]int, len(shape))
	for c := 0; c < n; c++ {
		f(idx)
		for k := len(shape) - 1; k >= 0; k-- {
			idx[k]++
			if idx[k] < shape[k] {
				break
			}
			idx[k] = 0
		}
	}
}

func randRef(rng *rand.Rand, shape []int, lo, hi float64) Ref {
	a := newRef(shape)
	for i := range a.Data {
		a.Data[i] = lo + (hi-lo)*rng.Float64()
	}
	return a
}

func nest(a Ref) any {
	var build func(k, off int) (any, int)
	build = func(k, off int) (any, int) {
		if k == len(a.Shape)-1 {
			row := make([]float64, a.Shape[k])
			copy(row, a.Data[off:off+a.Shape[k]])
			return row, off + a.Shape[k]
		}
		switch len(a.Shape) - k {
		case 2:
			out := make([][]float64, a.Shape[k])
			for i := range out {
				var v any
				v, off = build(k+1, off)
				out[i] = v.([]float64)
			}
			return out, off
		case 3:
			out := make([][][]float64, a.Shape[k])
			for i := range out {
				var v any
				v, off = build(k+1, off)
				out[i] = v.([][]float64)
			}
			return out, off
		default:
			out := make([][][][]float64, a.Shape[k])
			for i := range out {
				var v any
				v, off = build(k+1, off)
				out[i] = v.([][][]float64)
			}
			return out, off
		}
	}
	v, _ := build(0, 0)
	return v
}

// toT builds a library tensor with the reference's shape and values (rank <= 4 through TensorOf, higher ranks by Reshape).
func toT(a Ref, track bool) tensor.Tensor {
	conf := &tensor.Config{Device: tensor.CPU, GradTrack: track}
	var t tensor.Tensor
	var err error
	switch len(a.Shape) {
	case 0:
		t, err = tensor.TensorOf(a.Data[0], conf)
	case 1:
		t, err = tensor.TensorOf(nest(a).([]float64), conf)
	case 2:
		t, err = tensor.TensorOf(nest(a).([][]float64), conf)
	case 3:
		t, err = tensor.TensorOf(nest(a).([][][]float64), conf)
	case 4:
		t, err = tensor.TensorOf(nest(a).([][][][]float64), conf)
	default:
		flat := Ref{Shape: []int{len(a.Data)}, Data: a.Data}
		t = toT(flat, false)
		t, err = t.Reshape(a.Shape)
		if err == nil && track {
			t.ResetGradContext(true)
		}
	}
	if err != nil {
		panic("rac: cannot build tensor: " + err.Error())
	}
	return t
}

func fromT(t tensor.Tensor) Ref {
	a := newRef(t.Shape())
	forEach(a.Shape, func(idx []int) {
		v, err := t.At(idx...)
		if err != nil {
			panic("rac: At failed: " + err.Error())
		}
		a.Data[a.pos(idx)] = v
	})
	return a
}

func sameShape(a, b []int) bool {
	if len(a) != len(b) {
		return false
	}
	for i := range a {
		if a[i] != b[i] {
			return false
		}
	}
	return true
}

func closeTo(x, y, tol float64) bool {
	if math.IsNaN(x) || math.IsNaN(y) {
		return false
	}
	if x == y {
		return true
	}
	d := math.Abs(x - y)
	return d <= tol*(1+math.Max(math.Abs(x), math.Abs(y)))
}

// eqRef compares a library tensor with a reference; returns "" when they agree.
func eqRef(t tensor.Tensor, want Ref, tol float64) string {
	if t == nil {
		return "nil tensor"
	}
	if !sameShape(t.Shape(), want.Shape) {
		return fmt.Sprintf("shape %v, want %v", t.Shape(), want.Shape)
	}
	got := fromT(t)
	for i := range got.Data {
		if !closeTo(got.Data[i], want.Data[i], tol) {
			return fmt.Sprintf("element %d: got %v, want %v (shape %v)", i, got.Data[i], want.Data[i], want.Shape)
		}
	}
	return ""
}

// shapes enumerates all shapes with the given ranks and sizes 1..maxSize.
func shapes(minRank, maxRank, maxSize int) [][]int {
	var out [][]int
	for r := minRank; r <= maxRank; r++ {
		forEach(repeat(maxSize, r), func(idx []int) {
			s := make([]int, r)
			for k := range s {
				s[k] = idx[k] + 1
			}
			out = append(out, s)
		})
	}
	return out
}

func repeat(v, n int) []int {
	s := make([]int, n)
	for i := range s {
		s[i] = v
	}
	return s
}

/* ---------------- reference operations ---------------- */

func map1(a Ref, f func(float64) float64) Ref {
	o := newRef(a.Shape)
	for i, v := range a.Data {
		o.Data[i] = f(v)
	}
	return o
}

func bshape(a, b []int) ([]int, bool) {
	n := len(a)
	if len(b) > n {
		n = len(b)
	}
	out := make([]int, n)
	for k := 0; k < n; k++ {
		da, db := 1, 1
		if i := len(a) - 1 - k; i >= 0 {
			da = a[i]
		}
		if j := len(b) - 1 - k; j >= 0 {
			db = b[j]
		}
		switch {
		case da == db:
			out[n-1-k] = da
		case da == 1:
			out[n-1-k] = db
		case db == 1:
			out[n-1-k] = da
		default:
			return nil, false
		}
	}
	return out, true
}

// bcast expands a to shape (right-aligned, size-1 dimensions repeat).
func bcast(a Ref, shape []int) Ref {
	o := newRef(shape)
	off := len(shape) - len(a.Shape)
	src := make([]int, len(a.Shape))
	forEach(shape, func(idx []int) {
		for k := range a.Shape {
			if a.Shape[k] == 1 {
				src[k] = 0
			} else {
				src[k] = idx[k+off]
			}
		}
		o.Data[o.pos(idx)] = a.at(src)
	})
	return o
}

func map2(a, b Ref, f func(x, y float64) float64) (Ref, bool) {
	s, ok := bshape(a.Shape, b.Shape)
	if !ok {
		return Ref{}, false
	}
	ba, bb := bcast(a, s), bcast(b, s)
	o := newRef(s)
	for i := range o.Data {
		o.Data[i] = f(ba.Data[i], bb.Data[i])
	}
	return o, true
}

func without(shape []int, d int) []int {
	out := append([]int{}, shape[:d]...)
	return append(out, shape[d+1:]...)
}

// reduceAlong applies stat to every fibre along d.
func reduceAlong(a Ref, d int, stat func([]float64) float64) Ref {
	o := newRef(without(a.Shape, d))
	src := make([]int, len(a.Shape))
	forEach(o.Shape, func(idx []int) {
		copy(src[:d], idx[:d])
		copy(src[d+1:], idx[d:])
		fib := make([]float64, a.Shape[d])
		for q := range fib {
			src[d] = q
			fib[q] = a.at(src)
		}
		o.Data[o.pos(idx)] = stat(fib)
	})
	return o
}

func sSum(v []float64) float64 {
	s := 0.
	for _, x := range v {
		s += x
	}
	return s
}
func sMax(v []float64) float64 {
	m := math.Inf(-1)
	for _, x := range v {
		m = math.Max(m, x)
	}
	return m
}
func sMin(v []float64) float64 {
	m := math.Inf(1)
	for _, x := range v {
		m = math.Min(m, x)
	}
	return m
}
func sMean(v []float64) float64 { return sSum(v) / float64(len(v)) }
func sVar(v []float64) float64 {
	if len(v) < 2 {
		return 0
	}
	m := sMean(v)
	s := 0.
	for _, x := range v {
		s += (x - m) * (x - m)
	}
	return s / float64(len(v)-1)
}
func sStd(v []float64) float64 { return math.Sqrt(sVar(v)) }

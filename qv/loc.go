package main

import (
	"fmt"
	"go/ast"
	"go/types"
	"strings"
)

// ---------------------------------------------------------------------------------------------
// Assignable locations
// ---------------------------------------------------------------------------------------------

type varLoc struct {
	obj types.Object
}

func (l *varLoc) load(st *State) Val {
	v, ok := st.vars[l.obj]
	if !ok {
		panic(toolLimit("variable " + l.obj.Name() + " has no value"))
	}
	return v
}
func (l *varLoc) store(st *State, v Val) { st.bind(l.obj, v) }
func (l *varLoc) describe() string      { return l.obj.Name() }

type ghostLoc struct{ key string }

func (l *ghostLoc) load(st *State) Val     { return st.ghost[l.key] }
func (l *ghostLoc) store(st *State, v Val) { st.ghost[l.key] = v }
func (l *ghostLoc) describe() string       { return l.key }

// paramPtrLoc: the cell behind a pointer parameter (in/out value kept in st.ghost)
type paramPtrLoc struct {
	key   string
	isNil string
	ref   string
	elem  types.Type
}

func (l *paramPtrLoc) load(st *State) Val {
	v, ok := st.ghost[l.key]
	if !ok {
		panic(toolLimit("no cell for " + l.key))
	}
	return v
}
func (l *paramPtrLoc) store(st *State, v Val) { st.ghost[l.key] = v }
func (l *paramPtrLoc) describe() string       { return l.key }

type elemLoc struct {
	r   *UnitRun
	s   *SliceVal
	idx string
	n   ast.Node
}

func (l *elemLoc) load(st *State) Val { return l.r.sliceElem(st, l.s, l.idx) }
func (l *elemLoc) store(st *State, v Val) {
	r := l.r
	site := fmt.Sprintf("w%d", r.siteOrd[l.n])
	if l.s.Obj == nil && l.s.From != nil && st.fresh(l.s.From.ref) {
		// element write through a slice held in a field of an object allocated in this call: update the field's value
		r.obligeStatic(st, "frame", site, true, l.n, "element write targets ."+l.s.From.fi.name+" of an object allocated in this call")
		nv := *l.s
		nv.Arr = sx("store", l.s.Arr, add(l.s.Off, l.idx), r.toTerm(st, v, l.s.Elem))
		nv.From = nil
		l.s.From.store(st, Val{K: KSlice, S: &nv})
		return
	}
	if l.s.Obj == nil {
		r.obligeStatic(st, "frame", site, false, l.n, "element write through a slice that is not a locally owned object (owner: "+l.s.Own.String()+")")
		return
	}
	o := l.s.Obj
	if st.frozen[o] {
		r.obligeStatic(st, "frame", site, false, l.n, "element write to "+o.name+" after it was published (stored in a tensor / captured by an escaping closure)")
	} else if o.param && !r.modifiesAllows(o) {
		r.obligeStatic(st, "frame", site, false, l.n, "element write to parameter slice "+o.name+" not listed in modifies")
	} else {
		r.obligeStatic(st, "frame", site, true, l.n, "element write targets "+o.name+" ("+o.own.String()+")")
	}
	st.arrs[o] = sx("store", st.arrs[o], add(l.s.Off, l.idx), r.toTerm(st, v, l.s.Elem))
}
func (l *elemLoc) describe() string { return "elem" }

type fieldLoc struct {
	r   *UnitRun
	ref string
	fi  fieldInfo
	n   ast.Node
}

func (l *fieldLoc) load(st *State) Val {
	return l.r.fromTerm(sx("select", l.r.heapTerm(st, l.fi), l.ref), l.fi.goType)
}
func (l *fieldLoc) store(st *State, v Val) {
	r := l.r
	site := fmt.Sprintf("f%d", r.siteOrd[l.n])
	switch {
	case st.fresh(l.ref):
		r.obligeStatic(st, "frame", site, true, l.n, "field write ."+l.fi.name+" on an object allocated in this call")
	case r.modifiesField(l.fi.name):
		r.obligeStatic(st, "frame", site, true, l.n, "field write ."+l.fi.name+" permitted by modifies")
	case r.modifiesParamField(l.ref, l.fi.name):
		r.obligeStatic(st, "frame", site, true, l.n, "field write ."+l.fi.name+" of a parameter object permitted by modifies")
	default:
		r.obligeStatic(st, "frame", site, false, l.n, "field write ."+l.fi.name+" on a pre-existing object, not listed in modifies")
	}
	if v.K == KSlice && v.S.Obj != nil && v.S.Obj.param {
		o := v.S.Obj
		ok := o.own == OwnTaken || o.own == OwnLib || o.own == OwnFresh
		r.obligeStatic(st, "own", site, ok, l.n, fmt.Sprintf("slice %s (%s) stored into .%s", o.name, o.own, l.fi.name))
	}
	if v.K == KFunc {
		r.checkClosureEscape(st, v, l.n, site)
	}
	h := r.heapTerm(st, l.fi)
	st.heap[l.fi.name] = sx("store", h, l.ref, r.toTerm(st, v, l.fi.goType))
}
func (l *fieldLoc) describe() string { return l.fi.name }

// subFieldLoc: field of a struct value held in another location (state[i].From, conf.Device ...)
type subFieldLoc struct {
	base Loc
	name string
}

func (l *subFieldLoc) load(st *State) Val {
	b := l.base.load(st)
	if b.K != KStruct {
		panic(toolLimit("field of non-struct value"))
	}
	return b.F[l.name]
}
func (l *subFieldLoc) store(st *State, v Val) {
	b := l.base.load(st)
	if b.K != KStruct {
		panic(toolLimit("field store into non-struct value"))
	}
	nf := make(map[string]Val, len(b.F))
	for k, x := range b.F {
		nf[k] = x
	}
	nf[l.name] = v
	b.F = nf
	l.base.store(st, b)
}
func (l *subFieldLoc) describe() string { return l.base.describe() + "." + l.name }

func (st *State) fresh(ref string) bool {
	v, ok := st.ghost["fresh:"+ref]
	return ok && v.K == KBool
}

func (st *State) markFresh(ref string) {
	st.ghost["fresh:"+ref] = boolV("true")
}

func (r *UnitRun) modifiesAllows(o *Obj) bool {
	base := o.name
	for i := 0; i < len(base); i++ {
		if base[i] == '#' {
			base = base[:i]
			break
		}
	}
	for _, m := range r.unit.Modifies {
		if m == base || m == base+"[*]" {
			return true
		}
	}
	return false
}

// modifiesParamField: the unit's modifies clause has an entry "<param>.<field>" whose parameter (or receiver) is the
// object ref (as handed in) and whose field is the one written.
func (r *UnitRun) modifiesParamField(ref, field string) bool {
	for _, m := range r.unit.Modifies {
		i := strings.Index(m, ".")
		if i <= 0 || strings.HasPrefix(m, "*") || strings.Contains(m, "(") {
			continue
		}
		v, ok := r.paramVal[m[:i]]
		if !ok || v.K != KRef || v.T != ref {
			continue
		}
		if strings.HasSuffix(field, "."+m[i+1:]) {
			return true
		}
	}
	return false
}

func (r *UnitRun) modifiesField(name string) bool {
	for _, m := range r.unit.Modifies {
		if m == name {
			return true
		}
	}
	return false
}

package main

import (
	"os"
	"strings"
)

// ---------------------------------------------------------------------------------------------
// Domain functions available in contracts (abstract tensors, scalar math)
// ---------------------------------------------------------------------------------------------

const idxSort = "(Array Int Int)"
const genIdxSort = "(Array Fn (Array Int Int))"
const zeroIdx = "((as const (Array Int Int)) 0)"

func init() {
	// abstract tensor shape and elements (interface level, section 3.4 of DESIGN.md)
	if os.Getenv("QV_SHAPE") == "value" {
		// Shapes are first-class values: shp(t) : Shape, and rank / dim / inb / nelems are functions of the shape. Equality of
		// shapes is then plain equality (transitivity, symmetry and congruence come for free); extensionality turns
		// "equal rank and equal sizes" into equality.
		registerDefined("rank", []string{"T"}, "Int", `(declare-sort Shape 0)
(declare-fun shp (T) Shape)
(declare-fun srank (Shape) Int)
(declare-fun sdim (Shape Int) Int)
(define-fun rank ((t T)) Int (srank (shp t)))
(define-fun dim ((t T) (i Int)) Int (sdim (shp t) i))
(define-fun sameShape ((a T) (b T)) Bool (= (shp a) (shp b)))
(assert (forall ((s Shape)) (! (>= (srank s) 0) :pattern ((srank s)))))
(assert (forall ((s Shape) (i Int)) (! (=> (and (<= 0 i) (< i (srank s))) (>= (sdim s i) 1)) :pattern ((sdim s i)))))
(assert (forall ((s1 Shape) (s2 Shape)) (! (=> (and (= (srank s1) (srank s2)) (forall ((k Int)) (=> (and (<= 0 k) (< k (srank s1))) (= (sdim s1 k) (sdim s2 k))))) (= s1 s2)) :pattern ((srank s1) (srank s2)))))
(declare-fun inbS (Shape (Array Int Int)) Bool)
(define-fun inb ((t T) (J (Array Int Int))) Bool (inbS (shp t) J))
(assert (forall ((s Shape) (J (Array Int Int))) (! (= (inbS s J) (forall ((k Int)) (=> (and (<= 0 k) (< k (srank s))) (and (<= 0 (select J k)) (< (select J k) (sdim s k)))))) :pattern ((inbS s J)))))
(declare-fun snelems (Shape) Int)
(define-fun nelems ((t T)) Int (snelems (shp t)))
(assert (forall ((s Shape)) (! (>= (snelems s) 1) :pattern ((snelems s)))))`)
		registerDefined("dim", []string{"T", "Int"}, "Int", "", "rank")
		registerDefined("sameShape", []string{"T", "T"}, "Bool", "", "rank")
		registerDefined("inb", []string{"T", idxSort}, "Bool", "", "rank")
		registerDefined("nelems", []string{"T"}, "Int", "", "rank")
	} else {
		registerDomain("rank", []string{"T"}, "Int", `(assert (forall ((t T)) (! (>= (rank t) 0) :pattern ((rank t)))))`)
		registerDomain("dim", []string{"T", "Int"}, "Int", `(assert (forall ((t T) (i Int)) (! (=> (and (<= 0 i) (< i (rank t))) (>= (dim t i) 1)) :pattern ((dim t i)))))`, "rank")
		registerDomain("sameShape", []string{"T", "T"}, "Bool", `(assert (forall ((a T) (b T)) (! (= (sameShape a b) (and (= (rank a) (rank b)) (forall ((k Int)) (=> (and (<= 0 k) (< k (rank a))) (= (dim a k) (dim b k)))))) :pattern ((sameShape a b)))))
(assert (forall ((a T) (b T)) (! (= (sameShape a b) (sameShape b a)) :pattern ((sameShape a b)))))
(assert (forall ((a T)) (! (sameShape a a) :pattern ((rank a)))))
(assert (forall ((a T) (b T) (c T)) (! (=> (and (sameShape a b) (sameShape b c)) (sameShape a c)) :pattern ((sameShape a b) (sameShape b c)))))`, "rank", "dim")
		registerDomain("inb", []string{"T", idxSort}, "Bool", `(assert (forall ((t T) (J (Array Int Int))) (! (= (inb t J) (forall ((k Int)) (=> (and (<= 0 k) (< k (rank t))) (and (<= 0 (select J k)) (< (select J k) (dim t k)))))) :pattern ((inb t J)))))
(assert (forall ((a T) (b T) (J (Array Int Int))) (! (=> (and (sameShape a b) (inb a J)) (inb b J)) :pattern ((sameShape a b) (inb a J)))))`, "rank", "dim", "sameShape")
		registerDomain("nelems", []string{"T"}, "Int", `(assert (forall ((t T)) (! (>= (nelems t) 1) :pattern ((nelems t)))))
(assert (forall ((a T) (b T)) (! (=> (sameShape a b) (= (nelems a) (nelems b))) :pattern ((sameShape a b)))))`, "sameShape")
	}
	registerDomain("el", []string{"T", idxSort}, "Real", `(assert (forall ((t T) (J (Array Int Int)) (K (Array Int Int))) (! (=> (forall ((k Int)) (=> (and (<= 0 k) (< k (rank t))) (= (select J k) (select K k)))) (= (el t J) (el t K))) :pattern ((el t J) (el t K)))))`, "rank")
	// row-major view: flat(t, p) is the element at row-major position p
	registerDomain("flat", []string{"T", "Int"}, "Real", "")
	registerDomain("tmax", []string{"T"}, "Real", "")
	registerDomain("tmin", []string{"T"}, "Real", "")
	registerDomain("tvar", []string{"T"}, "Real", "")

	// index maps
	// swap2(J, n): J with positions n-2 and n-1 exchanged
	registerDomain("swap2", []string{idxSort, "Int"}, idxSort,
		`(assert (forall ((J (Array Int Int)) (n Int)) (! (= (swap2 J n) (store (store J (- n 2) (select J (- n 1))) (- n 1) (select J (- n 2)))) :pattern ((swap2 J n)))))`)
	// ins(J, d, q): index with q inserted at position d (positions >= d shift right); del(J, d): position d removed
	registerDomain("ins", []string{idxSort, "Int", "Int"}, idxSort,
		`(assert (forall ((J (Array Int Int)) (d Int) (q Int) (k Int)) (! (= (select (ins J d q) k) (ite (< k d) (select J k) (ite (= k d) q (select J (- k 1))))) :pattern ((select (ins J d q) k)))))`)
	registerDomain("del", []string{idxSort, "Int"}, idxSort,
		`(assert (forall ((J (Array Int Int)) (d Int) (k Int)) (! (= (select (del J d) k) (ite (< k d) (select J k) (select J (+ k 1)))) :pattern ((select (del J d) k)))))`)
	// shift(J, off): J'[k] = J[k+off]  (drop off leading positions)
	registerDomain("shift", []string{idxSort, "Int"}, idxSort,
		`(assert (forall ((J (Array Int Int)) (o Int) (k Int)) (! (= (select (shift J o) k) (select J (+ k o))) :pattern ((select (shift J o) k)))))`)
	// proj(t, o, J): the index of t that position J of the broadcast result o reads
	registerDomain("proj", []string{"T", "T", idxSort}, idxSort,
		`(assert (forall ((t T) (o T) (J (Array Int Int)) (k Int)) (! (=> (and (<= 0 k) (< k (rank t))) (= (select (proj t o J) k) (ite (= (dim t k) (dim o (+ k (- (rank o) (rank t))))) (select J (+ k (- (rank o) (rank t)))) 0))) :pattern ((select (proj t o J) k)))))
(assert (forall ((t T) (o T) (J (Array Int Int))) (! (=> (and (= (rank t) (rank o)) (forall ((k Int)) (=> (and (<= 0 k) (< k (rank t))) (= (dim t k) (dim o k))))) (= (el t (proj t o J)) (el t J))) :pattern ((proj t o J)))))`, "rank", "dim", "el")
	// val(J, S, k): the row-major (Horner) value of the digits J[0..k) over the sizes S, on top of the overflow digit J[-1]
	registerDomain("val", []string{idxSort, idxSort, "Int"}, "Int", "") // defined by the spec axiom valDef (used only where needed: a recursive definition is a matching loop)
	// shp(t): the shape of t as an index array; unval(t, p): an index of t at row-major position p (LEX, un-flattening)
	registerDomain("shp", []string{"T"}, idxSort, `(assert (forall ((t T) (k Int)) (! (= (select (shp t) k) (dim t k)) :pattern ((select (shp t) k)))))`, "dim")
	registerDomain("unval", []string{"T", "Int"}, idxSort, "")
	registerDomain("unvalK", []string{idxSort, "Int", "Int"}, idxSort, "") // digits of p over the sizes S[0..k) (spec axiom unvalDef)
	// cnt(A, lo, hi): number of leaves of a tree with the sizes A[lo..hi) (spec axiom cntDef)
	registerDomain("cnt", []string{idxSort, "Int", "Int"}, "Int", "")
	// projA(t, S, m, J): proj against a target shape given as an array S of rank m (no result tensor yet)
	registerDomain("projA", []string{"T", idxSort, "Int", idxSort}, idxSort,
		`(assert (forall ((t T) (S (Array Int Int)) (m Int) (J (Array Int Int)) (k Int)) (! (=> (and (<= 0 k) (< k (rank t))) (= (select (projA t S m J) k) (ite (= (dim t k) (select S (+ k (- m (rank t))))) (select J (+ k (- m (rank t)))) 0))) :pattern ((select (projA t S m J) k)))))`, "rank", "dim")
	// offs(J, F): J'[k] = J[k] + F[k]
	registerDomain("offs", []string{idxSort, idxSort}, idxSort,
		`(assert (forall ((J (Array Int Int)) (F (Array Int Int)) (k Int)) (! (= (select (offs J F) k) (+ (select J k) (select F k))) :pattern ((select (offs J F) k)))))`)

	// fibre sums and other reductions along a dimension (uninterpreted: values of sigma-operations are checked by the bounded stand-in)
	for _, f := range []string{"fsum", "fmax", "fmin", "fvar"} {
		// a fibre statistic depends only on the rank(t)-1 coordinates that select the fibre
		registerDomain(f, []string{"T", "Int", idxSort}, "Real", `(assert (forall ((t T) (d Int) (J (Array Int Int)) (K (Array Int Int))) (! (=> (forall ((k Int)) (=> (and (<= 0 k) (< k (- (rank t) 1))) (= (select J k) (select K k)))) (= (`+f+` t d J) (`+f+` t d K))) :pattern ((`+f+` t d J) (`+f+` t d K)))))`, "rank")
	}
	registerDomain("tsum", []string{"T"}, "Real", "")
	// matchCount(p, t): number of positions at which two rank-1 tensors compare equal; it is by definition the (integer
	// part of the) sum of the 0/1 indicator tensor. That this sum is an integer between 0 and the number of positions
	// (COUNT) is no longer assumed here: metrics.Accuracy.Accumulate proves it from the lemma sumBinary.
	registerDomain("matchCount", []string{"T", "T"}, "Int", `(assert (forall ((p T) (t T) (e T)) (! (=> (and (sameShape e p) (forall ((J (Array Int Int))) (=> (inb e J) (= (el e J) (ite (<= (math_Abs (- (el p J) (el t J))) (/ 1.0 1`+strings.Repeat("0", 240)+`.0)) 1.0 0.0))))) (= (to_int (tsum e)) (matchCount p t))) :pattern ((sameShape e p) (matchCount p t)))))`, "dim", "sameShape", "inb", "el", "tsum", "abs")
	// fibre(t, d, J): the one-dimensional fibre of t along d at the position selected by J (a ghost tensor);
	// the fibre statistics are the whole-tensor statistics of the fibre - this is their definition
	registerDomain("fibre", []string{"T", "Int", idxSort}, "T", `(assert (forall ((t T) (d Int) (J (Array Int Int))) (! (and (= (fsum t d J) (tsum (fibre t d J))) (= (fmax t d J) (tmax (fibre t d J))) (= (fmin t d J) (tmin (fibre t d J))) (= (fvar t d J) (tvar (fibre t d J))) (= (nelems (fibre t d J)) (dim t d))) :pattern ((fibre t d J)))))`, "fsum", "fmax", "fmin", "fvar", "tsum", "tmax", "tmin", "tvar", "nelems", "dim")
	registerDomain("dotsum", []string{"T", "T", idxSort}, "Real", "")
	registerDomain("mmsum", []string{"T", "T", idxSort}, "Real", "")
	// sums of products over same-shape operands (after broadcasting)
	// dsum(p, q, J) is *defined* as the left-to-right sum of products along the last dimension of p (dsumK: partial sums)
	registerDomain("dsumK", []string{"T", "T", idxSort, "Int"}, "Real",
		`(assert (forall ((p T) (q T) (J (Array Int Int)) (k Int)) (! (= (dsumK p q J k) (ite (<= k 0) 0.0 (+ (dsumK p q J (- k 1)) (* (el p (store J (- (rank p) 1) (- k 1))) (el q (store J (- (rank p) 1) (- k 1))))))) :pattern ((dsumK p q J k)))))`, "rank", "el")
	registerDomain("dsum", []string{"T", "T", idxSort}, "Real",
		`(assert (forall ((p T) (q T) (J (Array Int Int))) (! (= (dsum p q J) (dsumK p q J (dim p (- (rank p) 1)))) :pattern ((dsum p q J)))))`, "dsumK", "dim", "rank")
	registerDomain("msum", []string{"T", "T", idxSort}, "Real", "")
	registerDomain("msumK", []string{"T", "T", idxSort, "Int"}, "Real", "") // partial sums of the matrix product (spec axioms msumKDef / msumDef)

	// upd(J, k, v): J with position k replaced by v
	registerDomain("upd", []string{idxSort, "Int", "Int"}, idxSort, `(assert (forall ((J (Array Int Int)) (k Int) (v Int)) (! (= (upd J k v) (store J k v)) :pattern ((upd J k v)))))`)
	// dsumT(A, d, n): sum of dim(A[k], d) over k < n (Concat offsets)
	registerDomain("dsumT", []string{"(Array Int T)", "Int", "Int"}, "Int", `(assert (forall ((A (Array Int T)) (d Int) (n Int)) (! (=> (<= n 0) (= (dsumT A d n) 0)) :pattern ((dsumT A d n)))))
(assert (forall ((A (Array Int T)) (d Int) (n Int)) (! (=> (> n 0) (= (dsumT A d n) (+ (dsumT A d (- n 1)) (dim (select A (- n 1)) d)))) :pattern ((dsumT A d n)))))
(assert (forall ((A (Array Int T)) (d Int) (i Int) (n Int)) (! (=> (and (<= 0 i) (<= i n) (forall ((k Int)) (=> (and (<= i k) (< k n)) (>= (dim (select A k) d) 0)))) (<= (dsumT A d i) (dsumT A d n))) :pattern ((dsumT A d i) (dsumT A d n)))))
(assert (forall ((A (Array Int T)) (B (Array Int T)) (d Int) (n Int)) (! (=> (forall ((k Int)) (=> (and (<= 0 k) (< k n)) (= (select A k) (select B k)))) (= (dsumT A d n) (dsumT B d n))) :pattern ((dsumT A d n) (dsumT B d n)))))`, "dim")
	// ghost: every element of t is an independent fresh draw from U[l,u) / N(mu, sigma) (C18; the law itself is assumed)
	registerDomain("drawnU", []string{"T", "Real", "Real"}, "Bool", "")
	registerDomain("drawnN", []string{"T", "Real", "Real"}, "Bool", "")
	// isDrawU(x, a, b) / isDrawN(x, m, s): x is a value returned by some call of distuv.Uniform{a,b}.Rand / Normal{m,s}.Rand
	// (the draws themselves: drawUniform / drawNormal of the ghost tick, see evalDistuv)
	registerDomain("isDrawU", []string{"Real", "Real", "Real"}, "Bool", `(declare-fun drawUniform (Real Real Int) Real)
(assert (forall ((a Real) (b Real) (k Int)) (! (=> (< a b) (and (<= a (drawUniform a b k)) (< (drawUniform a b k) b))) :pattern ((drawUniform a b k)))))
(assert (forall ((a Real) (b Real) (k Int)) (! (isDrawU (drawUniform a b k) a b) :pattern ((drawUniform a b k)))))
(assert (forall ((x Real) (a Real) (b Real)) (! (=> (and (isDrawU x a b) (< a b)) (and (<= a x) (< x b))) :pattern ((isDrawU x a b)))))`)
	registerDomain("isDrawN", []string{"Real", "Real", "Real"}, "Bool", `(declare-fun drawNormal (Real Real Int) Real)
(assert (forall ((a Real) (b Real) (k Int)) (! (isDrawN (drawNormal a b k) a b) :pattern ((drawNormal a b k)))))`)
	// element generators (DESIGN.md 3.3): genAt(f, J) is the element the generator f yields at abstract index J, over the
	// enumeration shape genShape(f) of rank genRank(f)
	// mix(P, J, k, n): the index that agrees with J on the coordinates k..n-1 and with P elsewhere
	registerDomain("mix", []string{idxSort, idxSort, "Int", "Int"}, idxSort, `(assert (forall ((P (Array Int Int)) (J (Array Int Int)) (k Int) (n Int) (j Int)) (! (= (select (mix P J k n) j) (ite (and (<= k j) (< j n)) (select J j) (select P j))) :pattern ((select (mix P J k n) j)))))`)
	registerDomain("genAt", []string{"Fn", idxSort}, "Data", "")
	// genRel(f, J, v): v is an element the generator f may yield at abstract index J (scalar generators: v == genAt(f, J))
	registerDomain("genRel", []string{"Fn", idxSort, "Data"}, "Bool", "")
	registerDomain("genRank", []string{"Fn"}, "Int", "")
	registerDomain("genShape", []string{"Fn"}, idxSort, "")
	// ghost: the tensor that owns a gradient context (contexts are never shared)
	registerDomain("ownerOf", []string{"R_GradContext"}, "T", "")
	// ghost: source / target tensor of a back-edge closure
	registerDomain("srcOf", []string{"Fn"}, "T", "")
	registerDomain("tgtOf", []string{"Fn"}, "T", "")

	// scalar math shared with the code (math.X is translated to math_X)
	for _, f := range []string{"Exp", "Log", "Sin", "Cos", "Tan", "Sinh", "Cosh", "Tanh", "Sqrt", "Abs"} {
		domainFuncs[lower(f)] = domainFunc{smt: "math_" + f, args: []string{"Real"}, res: "Real", decl: "(declare-fun math_" + f + " (Real) Real)\n" + mathAx["math_"+f]}
	}
	domainFuncs["pow"] = domainFunc{smt: "math_Pow", args: []string{"Real", "Real"}, res: "Real", decl: "(declare-fun math_Pow (Real Real) Real)\n" + mathAx["math_Pow"]}
	domainFuncs["fmaxr"] = domainFunc{smt: "math_Max", args: []string{"Real", "Real"}, res: "Real", decl: "(declare-fun math_Max (Real Real) Real)\n" + mathAx["math_Max"]}
	domainFuncs["fminr"] = domainFunc{smt: "math_Min", args: []string{"Real", "Real"}, res: "Real", decl: "(declare-fun math_Min (Real Real) Real)\n" + mathAx["math_Min"]}
	domainFuncs["inf"] = domainFunc{smt: "math_Inf", args: []string{"Int"}, res: "Real", decl: "(declare-fun math_Inf (Int) Real)"}
	for k, v := range mathAx {
		mathAxioms[k] = v
	}
	// the world-level declarations of math functions and the on-demand ones must not clash: math functions used in
	// code are declared through needMath (world decls); the domain decl repeats the declare-fun, so strip it there.
	for name, df := range domainFuncs {
		if len(df.smt) > 5 && df.smt[:5] == "math_" {
			df.decl = mathAx[df.smt]
			df.deps = nil
			domainFuncs[name] = df
		}
	}
}

// registerDefined: like registerDomain, but the declaration text defines the symbol itself (define-fun)
func registerDefined(name string, args []string, res string, text string, deps ...string) {
	domainFuncs[name] = domainFunc{smt: name, args: args, res: res, decl: text, deps: deps}
}

func lower(s string) string {
	b := []byte(s)
	if b[0] >= 'A' && b[0] <= 'Z' {
		b[0] += 'a' - 'A'
	}
	return string(b)
}

// axioms for the scalar functions (reals; no rounding, no NaN/Inf): section 3.5 of DESIGN.md
var mathAx = map[string]string{
	"math_Pow": `(assert (forall ((x Real)) (! (= (math_Pow x 0.0) 1.0) :pattern ((math_Pow x 0.0)))))
(assert (forall ((x Real)) (! (= (math_Pow x 1.0) x) :pattern ((math_Pow x 1.0)))))
(assert (forall ((x Real)) (! (= (math_Pow x 2.0) (* x x)) :pattern ((math_Pow x 2.0)))))
(assert (forall ((x Real)) (! (=> (not (= x 0.0)) (= (math_Pow x (- 1.0)) (/ 1.0 x))) :pattern ((math_Pow x (- 1.0))))))
(assert (forall ((x Real)) (! (=> (not (= x 0.0)) (= (math_Pow x (- 2.0)) (/ 1.0 (* x x)))) :pattern ((math_Pow x (- 2.0))))))`,
	"math_Exp":  `(assert (forall ((x Real)) (! (> (math_Exp x) 0.0) :pattern ((math_Exp x)))))`,
	"math_Cosh": `(assert (forall ((x Real)) (! (>= (math_Cosh x) 1.0) :pattern ((math_Cosh x)))))`,
	"math_Log":  `(assert (forall ((x Real)) (! (=> (and (> x 0.0) (<= x 1.0)) (<= (math_Log x) 0.0)) :pattern ((math_Log x)))))`,
	"math_Max":  `(assert (forall ((a Real) (b Real)) (! (= (math_Max a b) (ite (>= a b) a b)) :pattern ((math_Max a b)))))`,
	"math_Min":  `(assert (forall ((a Real) (b Real)) (! (= (math_Min a b) (ite (<= a b) a b)) :pattern ((math_Min a b)))))`,
	"math_Abs":  `(assert (forall ((a Real)) (! (= (math_Abs a) (ite (>= a 0.0) a (- a))) :pattern ((math_Abs a)))))`,
	"math_Sqrt": `(assert (forall ((a Real)) (! (=> (>= a 0.0) (and (>= (math_Sqrt a) 0.0) (= (* (math_Sqrt a) (math_Sqrt a)) a))) :pattern ((math_Sqrt a)))))`,
}

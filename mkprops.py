#!/usr/bin/env python3
"""Writes props.json: per property, the root units whose obligation closure decides it, the bounded stand-ins and
the assumptions / paper lemmas reported in the evidence."""
import json
RULES = ["Concat", "Slice", "Patch", "Transpose", "Reshape", "UnSqueeze", "Squeeze", "Flatten", "SumAlong", "MaxAlong", "MinAlong", "AvgAlong",
         "VarAlong", "StdAlong", "MeanAlong", "Scale", "Pow", "Exp", "Log", "Sin", "Cos", "Tan", "Sinh", "Cosh", "Tanh", "ElMax", "ElMin",
         "Add", "Sub", "Mul", "Div", "Dot", "MatMul"]
UN = ["Scale", "Pow", "Exp", "Log", "Sin", "Cos", "Tan", "Sinh", "Cosh", "Tanh"]
CMP = ["Eq", "Ne", "Gt", "Ge", "Lt", "Le"]
AR = ["Add", "Sub", "Mul", "Div"]
ALONG = ["SumAlong", "MaxAlong", "MinAlong", "AvgAlong", "VarAlong", "StdAlong", "MeanAlong"]
WHOLE = ["Sum", "Max", "Min", "Avg", "Var", "Std", "Mean"]
def M(xs): return ["cputensor.CPUTensor." + x for x in xs]
def G(xs): return ["gradtrack." + x for x in xs]
PUBLIC_TENSOR = M(UN + CMP + ["ElMax", "ElMin"] + AR + ["Dot", "MatMul", "Equals", "NElems", "Shape", "At", "Slice", "Patch", "Transpose", "Reshape",
                  "UnSqueeze", "Squeeze", "Flatten", "Broadcast"] + WHOLE + ALONG + ["GradContext", "ResetGradContext", "Gradient"])
CTORS = ["tensor.Full", "tensor.Zeros", "tensor.Ones", "tensor.Eye", "tensor.RandU", "tensor.RandN", "tensor.Concat", "tensor.BackPropagate"]
COMPONENTS = ["layers.*", "activations.*", "losses.*", "metrics.*", "optimizers.*", "initializers.*"]
BACKPROP = G(["BackPropagate", "backward", "startEdge", "accumulateGrad", "gradContextOf", "toOnes", "toZeros", "NewGradContext", "NewDirtyGradContext"]) + ["tensor.BackPropagate"]
P = []
def prop(id, roots, bounded=(), paper=(), assumptions=(), level="other", expl="", skip=()):
    P.append({"id": id, "roots": roots, "bounded": [{"test": t, "what": w, "bound": b} for t, w, b in bounded], "paper_lemmas": list(paper),
              "assumptions": list(assumptions), "level": level, "explanation": expl, "skip_kinds": list(skip)})
    for b in P[-1]["bounded"]:
        if b["test"] == "TestConcurrent":
            b["race"] = True

prop("C01", BACKPROP,
     bounded=[("TestDAG", "global half of C01: every back edge is applied exactly once, after the gradient of its source is complete, so each tracked tensor receives the total derivative; additivity over graphs sharing leaves; polynomial time", "all DAGs with <= 4 (quick) / <= 5 (thorough) interior nodes over {Scale, Exp, Mul, Add, Sub, SumAlong, Slice, Concat}, every fan-out / reconvergence pattern, tracked/untracked leaf assignments, values from VERIF_SEED")],
     paper=["CHAIN: local accumulation (proved) + each rule is the VJP (C02) + every edge applied once after its source is complete (bounded) => total derivative (multivariate chain rule)"],
     assumptions=["dag(): acyclicity of the back-edge graph (a strict ghost order `older` on contexts, every edge from a younger to an older context) is a precondition of consumersFirst / backward / BackPropagate that no operation's contract establishes (no global allocation clock in the heap model)", "termination of the recursive walk is not proved (partial correctness)"],
     expl="Local half proved: the seed is all ones of the root's shape; backward marks the target spent before invoking the edge function, accumulates by element-wise addition (accumulateGrad), walks every back edge, stops at the first error, writes only tracked contexts, keeps the graph invariant. The order of the walk is proved as well: consumersFirst (depth-first search with a visited map, recursive closure, reversal loop) returns the root first, each reachable tracked context exactly once and before every tracked context it holds an edge to (topological order), under the acyclicity precondition dag(). That every tensor therefore receives the total derivative (each edge once, after its source is complete, summed) is the paper lemma CHAIN, cross-checked by the bounded stand-in.")
prop("C02", G(RULES),
     bounded=[("TestRuleValues", "cross-check of all 33 rules (their values are proved) against the closed-form vector-Jacobian products and central finite differences", "all operand shapes of rank <= 3 with sizes <= 3, every dim, every tracked subset, non-uniform upstream weights (the op is followed by Mul with a random untracked tensor)")],
     paper=["derivative table of DESIGN.md 3.5 (calculus)", "PROD, SUM-EXT (DESIGN.md section 8); LEX is machine-checked (lemmas valSucc ... lexUnsq, lexSq)"],
     expl="Every backward rule (33 constructors, 43 closures) is symbolically executed against the interface contracts of the tensor methods: the rule never fails after an accepted forward call, its result has exactly the operand's shape and is a spent untracked tensor, and (element-wise, relocation and fibre-position rules) its value is upstream times the derivative from the calculus table, with definedness obligations where a finite result is demanded. The rules of the reductions and products are proved as well: Sum/Max/Min/Avg/MeanAlong (fibre position), VarAlong and StdAlong (the fibre mean carried through UnSqueeze and broadcasting Sub / Div by a chain of intermediate facts), Dot (gy[J - last] * other[J]) and MatMul (grad a = gy . b^T, grad b = a^T . gy, with the transposed operand as existential witness).")
prop("C03", M(UN + CMP + ["ElMax", "ElMin"] + AR + ["Equals", "Broadcast"]) + ["cputensor.broadcastForBinaryOp", "cputensor.targetBroadcastDims", "validator.ValidateBinaryFuncDimsMatch", "validator.ValidateBroadcastSourceDimsAgainstTargetDims", "validator.ValidateInputDims"],
     bounded=[("TestElementwise", "cross-check of the proved element-wise recursions, the broadcast generator and equals", "all shapes of rank <= 4 with sizes <= 3 (and every broadcast-compatible pair), values including zeros, negatives, ties and 1e300-scale magnitudes")],
     paper=[],
     expl="Public element-wise operations are proved against the internal operations; the 22 scalar closures are executed symbolically (their bodies are the semantics of the function values); broadcasting is proved from targetBroadcastDims / the Broadcast validator via the lemmas btarget*. The tree recursions (calcData) and the broadcast element generator with initWith.fill are proved as well (Map1/Map2 tree relations, generator protocol); and so is equals (COUNT: the fold of + over a tree of 0/1 leaves counts the one-leaves; that count reaches the number of leaves iff every leaf is 1).")
prop("C04", M(["MatMul", "Dot", "Transpose"]) + ["cputensor.broadcastForMatMul", "cputensor.broadcastForBinaryOp", "cputensor.matMulDims", "cputensor.dotDims", "cputensor.transposeDims", "validator.ValidateMatMulDims", "validator.ValidateDotProductDims", "validator.ValidateTransposeDims"],
     bounded=[("TestLinalg", "cross-check of the proved matMul / dot / transpose (element values, swapped indices) and the identities A.I = A, (A.B)^T = B^T.A^T", "ranks 1..4, m,n,k in 1..3, every broadcast-compatible batch-shape pair with sizes <= 2; entries below the equality tolerance (1e-250 .. 1e-240) against factors of 1e260")],
     paper=["SUM-EXT: sums of products depend only on the elements of the operands", "matrix identities follow from the element formula (algebra)"],
     expl="Shapes, error conditions and the broadcasting of batch dimensions are proved for every rank; the element values are proved too: dsum / msum are defined by partial sums along the contracted dimension, dotProductOf1DInputs and the triple loop matMulDataOf2DInputs are proved against them, and the batch generators and the transpose generator are proved under the generator protocol (DESIGN.md 0.4).")
prop("C05", M(WHOLE + ALONG) + ["cputensor.squeezeDims", "validator.ValidateReducedDimAgainstDims", "cputensor.CPUTensor.numElems"],
     bounded=[("TestReducers", "cross-check of the proved folds sum/max/min/_var and of reduceDimUsingFunc (generator with reduced dimension), including extreme magnitudes", "all shapes of rank <= 4 with sizes <= 3, every dim, random values")],
     paper=["EXTREMUM: folding max/min from -Inf/+Inf over a non-empty fibre yields its extremum (the fold is the definition of tmax/tmin)", "STAT-EXT: a whole-tensor statistic depends only on shape and elements"],
     expl="SumAlong..MeanAlong are proved to have the operand's shape with dim removed and to be the whole-tensor statistic of each fibre (the reducer closures are executed symbolically; avg = sum/n, std = sqrt(var)); the folds themselves are proved: tsum/tmax/tmin/tvar are defined as the row-major left fold from 0 / -Inf / +Inf and the recursion trav is proved to compute that fold; the reduced-dimension generator is proved under the generator protocol.")
prop("C06", M(["At", "Slice", "Patch", "Reshape", "Flatten", "Squeeze", "UnSqueeze", "Broadcast", "NElems", "Shape"]) + ["tensor.Full", "tensor.Zeros", "tensor.Ones", "tensor.Eye", "tensor.Concat", "tensor.TensorOf", "cputensor.completeIndex",
     "validator.ValidateAtIndexAgainstDims", "validator.ValidateSliceIndexAgainstDims", "validator.ValidatePatchIndexAgainstDims", "validator.ValidateConcatTensorsDimsAlongDim", "validator.ValidateReshapeSourceDimsAgainstTargetDims",
     "validator.ValidateUnSqueezeDimAgainstDims", "validator.ValidateSqueezeDimAgainstDims", "validator.ValidateFlattenDimAgainstDims", "cputensor.unsqueezeDims", "cputensor.squeezeDims", "cputensor.flattenDims"],
     bounded=[("TestSlicePatch", "assumed contract of copiedWithPatchOf; cross-check of the proved copiedSliceOf / dataAt", "all shapes of rank <= 3 with sizes <= 3, every combination of explicit / omitted / {0,0} ranges, every source block size and position"),
              ("TestShapeOps", "cross-check of the proved reshape / transpose / broadcast element generators (row-major sequence preserved)", "all shapes of rank <= 3 (thorough: 4) with sizes <= 3, every element-count-preserving target, and every Broadcast target of rank <= 3 with sizes <= 3 plus all rank-4 targets with sizes <= 2"),
              ("TestConstructors", "the assumed contract of initConcatResultTensor; cross-check of the proved constTensor / eyeMatrix / TensorOf (initTensorFromData)", "ranks <= 4, sizes <= 3; Concat of 2..3 operands along every dim")],
     paper=["PROD: element count of unsqueezed / squeezed / flattened shapes (LEX - the odometer successor increments the row-major position - is machine-checked)"],
     expl="Validators are characterised exactly; Slice / Patch / At / Concat / Reshape family / Broadcast / constructors are proved against the contracts of the L2 leaf functions (index arithmetic: completeIndex, rfrom/rwidth, catoff); the leaf functions are proved as well (generator protocol with initWith.fill, copiedSliceOf, dataAt, the row-major position theory LEX) except copiedWithPatchOf and initConcatResultTensor, which are assumed with bounded stand-ins. TensorOf is proved too: ValidateInputDataDimUnity accepts exactly the rectangular inputs without an empty dimension (typed nested slices held by an interface value), initTensorFromData builds a tree of exactly that shape whose leaves are the corresponding input elements (ten nested loops, one invariant each), and nothing of the caller's slices is kept.")
prop("C07", G(["Broadcast"]) + ["cputensor.broadcastForBinaryOp", "cputensor.broadcastForMatMul", "cputensor.CPUTensor.Broadcast"] + M(AR + ["Dot", "MatMul"]),
     bounded=[("TestBroadcastGrad", "value of the Broadcast rule: the gradient of the source is the SUM of the upstream gradient over all copies (explicit Broadcast and implicit expansion in Add/Sub/Mul/Div/Dot/MatMul, either operand)", "all (source, target) pairs with target rank <= 3 and sizes <= 3, expansion factor 1 included")],
     paper=["Fubini: iterated fibre sums equal the sum over the pre-image"],
     expl="Proved: the rule never fails, returns a gradient of exactly the source's shape (two loops with rank / dims invariants) and every implicit expansion goes through the public Broadcast, so this rule sits on it: for Add / Sub / Mul / Div / Dot / MatMul the two back edges of a tracked result are proved to target the broadcast images of the respective operands (of the result's / the contraction's shape), each of which carries exactly one back edge - the Broadcast rule - to the operand itself. The value (sum, not mean) is decided by the bounded stand-in.")
prop("C08", G(RULES + ["Broadcast", "NewGradContext", "NewDirtyGradContext", "anyIsBPDirty", "nonIsTracked", "gradContextOf"]) + BACKPROP + PUBLIC_TENSOR + ["tensor.Full", "tensor.Concat"],
     bounded=[("TestTrackingHistory", "completeness of the walk: every tracked tensor the root was computed from receives a gradient (the converse direction is proved)", "random histories of <= 12 operations over <= 4 leaves (create / unary / binary / comparison / BackPropagate / ResetGradContext), 300 (quick) / 3000 (thorough) histories")],
     paper=["MONO: 'marked' is stable under the monotone heap changes of backward", "induction over histories: the representation invariant and the per-operation postconditions are all a history can observe"],
     expl="Per operation: result spent iff an operand is spent, else tracked iff an operand is tracked; one back edge per operand; comparisons untracked; gradients are spent untracked tensors; backward from an untracked root has an empty frame, from a tracked root writes only tracked contexts, monotonically; ResetGradContext installs a fresh leaf context and touches nothing else.")
prop("C09", ["validator.*", "tensor.*", "cputensor.Full", "cputensor.Zeros", "cputensor.Ones", "cputensor.Eye", "cputensor.RandU", "cputensor.RandN", "cputensor.Concat"] + PUBLIC_TENSOR + COMPONENTS,
     bounded=[("TestTotality", "the two remaining assumed L2 leaves and an end-to-end panic sweep of every public entry point (TensorOf over ragged / empty nested slices included, now also proved)", "all argument tuples from small integers in [-2,6], ranks 0..3, nil values, rectangular and ragged nested slices of depth 1..4 (quick: 20k calls, thorough: 200k)")],
     expl="Safety obligations (index, slice, make, nil, type assertion, panic unreachable) of every function reachable from the public surface that is under contract, exact error characterisation of every validator and public method (err == nil iff the documented precondition), result shapes.")
prop("C10", PUBLIC_TENSOR + ["tensor.*", "cputensor.Concat"] + G(RULES + ["Broadcast"]) + ["optimizers.*"],
     bounded=[("TestAliasing", "end-to-end: mutating every slice passed in or handed out after the call changes neither any tensor nor a later back-propagation", "every public entry point taking or returning a slice, shapes of rank <= 3")],
     expl="Ownership obligations (kind own / frame, decided statically by qv): every element write, copy or append targets an object allocated in the current call or listed in modifies; slices stored in tensors or captured by escaping closures are never caller-owned; slices returned to the caller are fresh; field writes go to objects allocated in the call unless the contract permits (gradient/bpdirty by backward, gctx by ResetGradContext, *wptr by Update).",
     )
prop("C11", ["optimizers.*", "layers.FC.Weights", "layers.FC.Forward", "cputensor.CPUTensor.ResetGradContext", "tensor.BackPropagate", "gradtrack.NewGradContext"],
     bounded=[("TestTraining", "the training step as a whole: w' = w - lr * dLoss/dw against a reference gradient, no leakage between steps, omitted reset reported by the next Update", "FC -> {Relu, Sigmoid, Tanh, LeakyRelu, Softmax} -> {MSE, BCE, CE}, widths <= 3, batch <= 3, 3 steps, values from VERIF_SEED")],
     paper=["composition of the step contracts over any number of steps (loop invariant over steps)"],
     expl="Code-level obligations of the step: SGD.Update (w - lr*g, error and no replacement without gradient), FC.Weights pointer identity, ResetGradContext installs a fresh leaf. The derivative itself is inherited from C01 (bounded global half) and C07 (known finding).")
prop("C12", ["losses.*"],
     bounded=[("TestLossValues", "finiteness / non-negativity on floats and independence of tracking", "batch <= 4, classes <= 3, values from a grid including 0, 1, 1e-12-neighbours, +-1e6")],
     paper=["a mean of non-negative terms is non-negative (log <= 0 on (0,1])"],
     expl="MSE / BCE / CE are proved to return a scalar tensor whose value is the batch mean of the stated per-element formula over clipped inputs, never an error after validation, with every log argument >= 1e-12 (definedness).")
prop("C13", ["losses.*"],
     bounded=[("TestLossGrads", "gradient of each loss with respect to the prediction (leaf or result of upstream tracked operations) against the analytic formula, zero where clipped", "batch <= 4, classes <= 3, predictions on a grid in [0,1] including exactly 0 and 1, targets in [0,1]")],
     expl="The forward graph each loss builds is proved operation by operation (C12); the gradient formula is the composition of the rule contracts (C02) along that graph under back-propagation (C01), which this family cannot compose symbolically without the global half of C01; it is decided by the bounded stand-in.")
prop("C14", ["activations.*"],
     bounded=[("TestActivationValues", "float-level cross-check (negative zero, |x| up to 700)", "shapes of rank <= 3, sizes <= 3, every Softmax dim")],
     paper=["softmax sums to 1 along d: (sum of e/s) = s/s"],
     expl="Relu, LeakyRelu, Sigmoid, Tanh, Softmax forward are proved element-wise from the interface contracts, including Softmax for every rank and every dimension d < rank (shape algebra of SumAlong / UnSqueeze / broadcasting Div).")
prop("C15", ["activations.*"],
     bounded=[("TestActivationGrads", "gradient of each activation (input a leaf or an intermediate) against the analytic derivative", "shapes of rank <= 3, sizes <= 3, values including exactly 0, every Softmax dim, non-uniform upstream")],
     expl="As C13: forward graphs proved (C14), rules proved (C02); the composed gradient is decided by the bounded stand-in.")
prop("C16", ["layers.*"],
     bounded=[("TestFC", "affine value y[b][o] = W[o]*sum_d x[b][d] + B[o], row independence, gradients of W, B, x", "batch, features, outputs <= 3, non-uniform values, one weight below the equality tolerance against an input of 1e260, parameter replacement through Weights()")],
     paper=["linearity of the sum over d"],
     expl="Proved: NewFC / config validation, Weights() returns the addresses of the fields read by Forward, Forward never fails for a [batch, features] input while W, B have shape [Outputs] and returns [batch, Outputs] (shape algebra of UnSqueeze, broadcasting MatMul, SumAlong, broadcasting Add).")
prop("C17", ["optimizers.*"], level="proof",
     expl="SGD.Update: error and no replacement when the pointer, the tensor or its gradient is nil; otherwise *wptr is a new tensor of the same shape with el = w - lr*g for any lr; the old tensor and its gradient are not written (empty heap frame).")
prop("C18", ["initializers.*", "tensor.RandU", "tensor.RandN", "tensor.Full"],
     bounded=[("TestRandom", "one fresh draw per element (no hoisted draw) and the sample moments; cross-check of the proved uniformRandomTensor / normalRandomTensor", "shapes up to 4x5x5; 20000 draws for the moment check")],
     assumptions=["gonum distuv.{Uniform,Normal}.Rand() draws independent samples of the named law (external code)"],
     expl="Every initializer returns a tracked leaf of exactly the requested shape; the distribution parameters handed to RandU / RandN are exactly +-sqrt(6/fanIn), +-sqrt(6/(fanIn+fanOut)), sqrt(2/fanIn), sqrt(2/(fanIn+fanOut)), the configured or the default values; uniform draws lie in [lower, upper). The statistical law is an assumption.")
prop("C19", ["metrics.*"],
     paper=["counts are additive over concatenation (partition invariance); COUNT itself - the sum of a 0/1 tensor is the number of its ones, an integer in [0, n] - is machine-checked (lemma sumBinary over foldOnes / onesBound)"],
     bounded=[("TestAccuracyPartition", "partition invariance on concrete data (every split of a data set into batches gives the same result)", "data sets of <= 8 positions, every split into <= 3 batches")],
     expl="Accuracy: invariant 0 <= correct <= total; a rejected call writes nothing; an accepted call adds the batch size and the number of matching positions (defined as the sum of the 0/1 indicator tensor that Eq returns; that this sum is a whole number between 0 and the batch size is proved from the tree-level counting lemmas, not assumed); Result is 0 before any call, else correct/total in [0,1].")
prop("C20", PUBLIC_TENSOR + ["tensor.*", "cputensor.Concat"] + G(RULES + ["Broadcast", "anyIsBPDirty", "nonIsTracked", "gradContextOf"]) + ["activations.*", "losses.*", "layers.FC.Forward"],
     bounded=[("TestConcurrent", "go test -race over concurrent forward computations, graph construction on shared tracked parameters and back-propagation of graphs sharing only untracked tensors", "8 goroutines x 50 iterations")],
     paper=["DRF: disjoint write sets + immutable shared reads => no data race and sequential results (Go memory model)"],
     assumptions=["gonum draws go through x/exp/rand's locked source (external code)", "no schedule is explored by this family; the frame obligations are the premise of the data-race-freedom argument"],
     expl="Frame obligations of every function reachable from forward entry points and graph construction: nothing that existed before the call is written (element writes, copies, appends, field writes all target objects allocated in the call); graph construction only reads operand contexts; backward writes only contexts of tracked tensors. There is no package-level variable in the repository (checked on every run).")
json.dump(P, open("/verif/props.json", "w"), indent=1)
print(len(P), "properties")

package main

import (
	"bytes"
	"context"
	"crypto/sha1"
	"encoding/hex"
	"fmt"
	"os"
	"os/exec"
	"path/filepath"
	"strings"
	"sync"
	"sync/atomic"
	"time"
)

// ---------------------------------------------------------------------------------------------
// Discharging obligations: z3 4.8.12 first, then z3-new and cvc5 in parallel
// ---------------------------------------------------------------------------------------------

var solverErrors atomic.Int64

type SolveResult struct {
	Status  string // "unsat" | "sat" | "unknown"
	Backend string
	Secs    float64
	Output  string // solver output of the deciding / last run
	Model   string
}

type Solver struct {
	outDir    string
	quickT    time.Duration // first-stage timeout
	fullT     time.Duration
	mu        sync.Mutex
	cache     map[string]*SolveResult
	inflight  map[string]chan struct{}
	totalSecs map[string]float64
	counts    map[string]int
}

func newSolver(outDir string, full time.Duration) *Solver {
	os.MkdirAll(outDir, 0o755)
	return &Solver{outDir: outDir, quickT: 3 * time.Second, fullT: full, cache: map[string]*SolveResult{}, inflight: map[string]chan struct{}{}, totalSecs: map[string]float64{}, counts: map[string]int{}}
}

func runSolver(ctx context.Context, name string, args []string, file string, timeout time.Duration) (string, float64) {
	var cmd *exec.Cmd
	secs := int(timeout.Seconds())
	if secs < 1 {
		secs = 1
	}
	switch name {
	case "z3":
		cmd = exec.CommandContext(ctx, "z3", append([]string{fmt.Sprintf("-T:%d", secs)}, append(args, file)...)...)
	case "z3-new":
		cmd = exec.CommandContext(ctx, "z3-new", append([]string{fmt.Sprintf("-T:%d", secs)}, append(args, file)...)...)
	case "cvc5":
		cmd = exec.CommandContext(ctx, "cvc5", append([]string{fmt.Sprintf("--tlimit=%d", secs*1000), "--incremental"}, append(args, file)...)...)
	}
	var out bytes.Buffer
	cmd.Stdout = &out
	cmd.Stderr = &out
	t0 := time.Now()
	cmd.Run()
	return out.String(), time.Since(t0).Seconds()
}

func firstLine(s string) string {
	s = strings.TrimSpace(s)
	if strings.Contains(s, "(error") || strings.Contains(s, "Parse Error") {
		solverErrors.Add(1)
		if solverErrors.Load() < 5 {
			fmt.Fprintln(os.Stderr, "SOLVER ERROR:", strings.SplitN(s, "\n", 2)[0])
		}
		return "error"
	}
	if i := strings.Index(s, "\n"); i >= 0 {
		return strings.TrimSpace(s[:i])
	}
	return s
}

func (s *Solver) record(backend string, secs float64) {
	s.mu.Lock()
	s.totalSecs[backend] += secs
	s.counts[backend]++
	s.mu.Unlock()
}

// solve decides one obligation. expectSat is set for vacuity canaries (a short timeout suffices: only unsat matters).
func (s *Solver) solve(o *Obligation, expectSat bool) *SolveResult {
	text := o.smt(false)
	h := sha1.Sum([]byte(text))
	key := hex.EncodeToString(h[:])
	if expectSat {
		key += "c"
	}
	s.mu.Lock()
	if r, ok := s.cache[key]; ok {
		s.mu.Unlock()
		return r
	}
	if ch, ok := s.inflight[key]; ok {
		// an identical query is being solved by another worker: wait for it
		s.mu.Unlock()
		<-ch
		s.mu.Lock()
		r := s.cache[key]
		s.mu.Unlock()
		return r
	}
	done := make(chan struct{})
	s.inflight[key] = done
	s.mu.Unlock()
	file := filepath.Join(s.outDir, sanitize(o.Name)+"_"+key[:10]+".smt2")
	os.WriteFile(file, []byte(text), 0o644)
	res := &SolveResult{Status: "unknown"}
	defer func() {
		s.mu.Lock()
		s.cache[key] = res
		delete(s.inflight, key)
		s.mu.Unlock()
		close(done)
	}()
	ctx := context.Background()
	if expectSat {
		out, secs := runSolver(ctx, "z3", nil, file, 1*time.Second)
		s.record("z3", secs)
		res.Output, res.Secs, res.Backend = out, secs, "z3"
		switch firstLine(out) {
		case "unsat":
			// confirm with a second solver before declaring vacuity
			res.Status = "unsat"
		case "sat":
			res.Status = "sat"
		}
		return res
	}
	// race: all three back ends start together on every stage; the first unsat wins and cancels the others
	// (z3 4.8.12 times out on many queries the other two decide in 0.1 s, and the reverse also happens)
	race := func(f string, t time.Duration) (status, backend, out string, secs float64) {
		type ans struct {
			backend, out string
			secs         float64
		}
		ch := make(chan ans, 3)
		ctx2, cancel := context.WithCancel(ctx)
		defer cancel()
		backends := []string{"z3", "z3-new", "cvc5"}
		for _, b := range backends {
			go func(b string) {
				o, sec := runSolver(ctx2, b, nil, f, t)
				ch <- ans{b, o, sec}
			}(b)
		}
		status = "unknown"
		for range backends {
			a := <-ch
			s.record(a.backend, a.secs)
			if a.secs > secs {
				secs = a.secs
			}
			switch firstLine(a.out) {
			case "unsat":
				return "unsat", a.backend, a.out, a.secs
			case "sat":
				status, backend, out = "sat", a.backend, a.out
			default:
				if status == "unknown" {
					out += "[" + a.backend + "] " + firstLine(a.out) + "\n"
				}
			}
		}
		return
	}
	// stage 0: pointwise-grounded query without the instantiated quantified facts (a weaker hypothesis set: only
	// unsat means something)
	if gtext := o.smtMode(false, true); gtext != "" {
		gfile := strings.TrimSuffix(file, ".smt2") + "_ground.smt2"
		os.WriteFile(gfile, []byte(gtext), 0o644)
		if st, b, out, secs := race(gfile, s.quickT); st == "unsat" {
			res.Status, res.Backend, res.Output, res.Secs = "unsat", b, out, secs
			return res
		}
		// stage 0b: the same query without any quantified hypothesis (prelude axioms included). Still a weaker hypothesis
		// set, so unsat is a proof; it is what decides goals that are pure (nonlinear) arithmetic at the Skolem index,
		// where the quantified axioms only feed the instantiation engine
		var qf []string
		dropped := false
		for _, line := range strings.Split(gtext, "\n") {
			if strings.HasPrefix(line, "(assert") && (strings.Contains(line, "(forall (") || strings.Contains(line, "(exists (")) {
				dropped = true
				continue
			}
			qf = append(qf, line)
		}
		if dropped {
			qfile := strings.TrimSuffix(file, ".smt2") + "_qf.smt2"
			os.WriteFile(qfile, []byte(strings.Join(qf, "\n")), 0o644)
			if st, b, out, secs := race(qfile, s.quickT); st == "unsat" {
				res.Status, res.Backend, res.Output, res.Secs = "unsat", b, out, secs
				return res
			}
		}
	}
	st, b, out, secs := race(file, s.fullT)
	res.Status, res.Backend, res.Output, res.Secs = st, b, out, secs
	if st == "unsat" {
		return res
	}
	if res.Status == "sat" {
		// fetch values of the interesting terms from z3-new
		mfile := strings.TrimSuffix(file, ".smt2") + "_model.smt2"
		os.WriteFile(mfile, []byte(o.smt(true)), 0o644)
		mout, msecs := runSolver(ctx, "z3-new", nil, mfile, s.fullT)
		s.record("z3-new", msecs)
		if firstLine(mout) == "sat" {
			res.Model = mout
		} else {
			mout, msecs = runSolver(ctx, "z3", nil, mfile, s.fullT)
			s.record("z3", msecs)
			if firstLine(mout) == "sat" {
				res.Model = mout
			}
		}
	}
	return res
}

package main

import (
	"fmt"
	"go/ast"
	"go/parser"
	"go/types"
	"sort"
	"strings"
)

// ---------------------------------------------------------------------------------------------
// Verification of one unit: initial state, body, obligations
// ---------------------------------------------------------------------------------------------

type UnitResult struct {
	Unit    *Unit
	Run     *UnitRun
	Obls    []*Obligation
	Limits  []string
	Paths   int
	Skipped string // assumed / abstract
}

func verifyUnit(p *Program, u *Unit) (res *UnitResult) {
	r := newUnitRun(p, u)
	res = &UnitResult{Unit: u, Run: r}
	if u.Abstract || u.Assumed != "" {
		res.Skipped = u.Assumed
		return
	}
	defer func() {
		if x := recover(); x != nil {
			switch e := x.(type) {
			case toolLimit:
				r.limit("%s", string(e))
			case specError:
				r.limit("spec: %s", string(e))
			default:
				panic(x)
			}
		}
		res.Obls = r.obls
		res.Limits = r.limits
		res.Paths = r.paths + 1
	}()
	r.numberSites()
	st := &State{u: r, vars: map[types.Object]Val{}, names: map[string]types.Object{}, arrs: map[*Obj]string{}, heap: map[string]string{}, frozen: map[*Obj]bool{}, ghost: map[string]Val{}}
	own := OwnBorrow
	if u.Public {
		own = OwnCaller
	}
	// receiver
	if u.Recv != nil {
		v := r.symbolicParam(st, u.Recv.Type(), u.Recv.Name(), own)
		if v.K == KRef {
			st.assume(not(eq(v.T, p.World.nilOf(v.Sort))))
			r.assumption("method receivers are non-nil")
		}
		st.bind(u.Recv, v)
		r.paramVal[u.Recv.Name()] = v
	}
	for i := 0; i < u.Sig.Params().Len(); i++ {
		pv := u.Sig.Params().At(i)
		o := own
		if u.Takes[pv.Name()] {
			o = OwnTaken
		}
		v := r.symbolicParam(st, pv.Type(), pv.Name(), o)
		st.bind(pv, v)
		r.paramVal[pv.Name()] = v
	}
	for i := 0; i < u.Sig.Results().Len(); i++ {
		rv := u.Sig.Results().At(i)
		if rv.Name() != "" && rv.Name() != "_" {
			st.bind(rv, r.zero(st, rv.Type()))
		}
	}
	// captured variables of a closure unit
	if u.Lit != nil {
		ownNames := map[string]bool{}
		for i := 0; i < u.Sig.Params().Len(); i++ {
			ownNames[u.Sig.Params().At(i).Name()] = true
		}
		for i := 0; i < u.Sig.Results().Len(); i++ {
			ownNames[u.Sig.Results().At(i).Name()] = true
		}
		for _, cv := range r.capturedAndOuterParams(u) {
			if ownNames[cv.Name()] && cv.Name() != "" && cv.Name() != "_" {
				// an outer parameter shadowed by one of the closure's own: invisible to the body, and a contract that names
				// it means the closure's parameter
				continue
			}
			if _, isFn := cv.Type().Underlying().(*types.Signature); isFn {
				if cu := r.lookupVarUnit(cv); cu != nil {
					r.varUnit[cv] = cu
					continue
				}
			}
			o := OwnBorrow
			if u.Takes[cv.Name()] {
				o = OwnTaken
			}
			v := r.symbolicParam(st, cv.Type(), cv.Name(), o)
			st.bind(cv, v)
			r.paramVal[cv.Name()] = v
		}
	}
	if _, ok := st.ghost["tick"]; !ok {
		// ghost draw counter (only materialised when used)
	}
	// tensors handed in by the caller exist before the call (allocations made here get positive birth stamps)
	for name, v := range r.paramVal {
		if v.K == KRef && v.Sort == "T" {
			// relative time: whatever is handed in exists before anything this call allocates
			r.declBirth("T")
			st.assume(sx("<=", sx("birth_T", v.T), "0"))
			// type invariant of tensor-typed parameters: the tensor is complete (its constructing function has returned), so
			// the representation links hold for it. Checked statically at every call site (see applyContract).
			if !u.Unpublished[name] {
				st.assume(implies(not(eq(v.T, "nilT")), sx("published", v.T)))
			}
		}
	}
	// ghost abstract index of the element generator in use (DESIGN.md 3.3)
	// ghost parameters of this unit and of its enclosing functions: arbitrary values (constrained by the requires)
	for gu := u; gu != nil; gu = gu.Parent {
		for _, gp := range gu.GhostParams {
			if _, ok := st.ghost[gp.Name]; !ok {
				st.ghost[gp.Name] = r.valOfSort(r.fresh("ghost_"+gp.Name, gp.Sort), gp.Sort)
			}
		}
	}
	// (one index per generator: a map from function values to indices)
	r.needFn()
	st.ghost["genIdx"] = Val{K: KRef, T: r.fresh("genIdx", genIdxSort), Sort: genIdxSort}
	r.entry = st.clone()
	// axioms of the package
	envA := &SpecEnv{run: r, st: st, old: r.entry, bound: map[string]Val{}}
	for _, ax := range p.Axioms {
		used := false
		for _, n := range u.Uses {
			if n == ax.Name {
				used = true
			}
		}
		if !used {
			continue
		}
		if ax.Lemma && (strings.HasPrefix(ax.Induct, "upfix ") || strings.HasPrefix(ax.Induct, "up ")) {
			st.assume(r.upfixConclusion(envA, ax))
		} else if ax.Lemma {
			st.assume(r.specBool(envA, ax.C, "lemma "+ax.Name))
		} else {
			st.assume(r.specBool(envA, ax.C, "axiom "+ax.Name))
			r.assumption("axiom " + ax.Name + ": " + ax.C.Text)
		}
	}
	if u.Implements != "" {
		au, ok := p.Units[u.Implements]
		if !ok {
			panic(toolLimit("implements: no abstract contract " + u.Implements))
		}
		r.needFn()
		self := Val{K: KFunc, Fn: &FuncVal{term: r.fresh("self", "Fn"), typ: u.Sig}}
		st.ghost["self"] = self
		r.bindEdgeGhost(st, u, self.Fn.term)
		envI := &SpecEnv{run: r, st: st, old: r.entry, bound: map[string]Val{"self": self}}
		for _, c := range au.Requires {
			st.assume(r.specBool(envI, c, "call-state protocol of "+au.Name))
		}
		for _, c := range u.Yields {
			st.assume(r.specBool(envI, c, "yields of "+u.Name))
		}
		for _, c := range u.Invariant {
			st.assume(r.specBool(envI, c, "closure invariant of "+u.Name))
		}
	}
	env := &SpecEnv{run: r, st: st, old: r.entry, bound: map[string]Val{}}
	for _, c := range u.Requires {
		st.assume(r.specBool(env, c, "requires of "+u.Name))
	}
	for _, c := range u.Domain {
		st.assume(r.specBool(env, c, "domain of "+u.Name))
		r.assumption("property domain (assumed, not checked) in " + u.Name + ": " + c.Text)
	}
	for _, g := range u.Ghost {
		if g.Kind == "assume" {
			st.assume(r.specBool(env, g.C, "ghost assume"))
			r.assumption("ghost assume in " + u.Name + ": " + g.C.Text)
		}
	}
	r.oblige(st, "canary", "entry", "false", nil, "preconditions are satisfiable (must NOT be provable)", nil)
	defer func() {
		// an intermediate fact that could not be evaluated on any return path is a contract error, not a silent no-op
		for i, why := range r.haveSkipped {
			if !r.haveDone[i] {
				r.limit("have clause %d is never evaluated: %s", i, why)
			}
		}
	}()
	r.execBlock(st, u.Body, func(s2 *State) {
		if u.Sig.Results().Len() > 0 {
			// falling off the end is impossible for functions with results (compiler-checked)
			return
		}
		r.finish(s2, nil, nil)
	})
	return
}

// assumeNamed adds the named lemmas (proved separately) / axioms (assumed, reported) to a state.
func (r *UnitRun) assumeNamed(st *State, names []string) {
	env := &SpecEnv{run: r, st: st, old: r.entry, bound: map[string]Val{}}
	for _, n := range names {
		found := false
		for _, ax := range r.prog.Axioms {
			if ax.Name != n {
				continue
			}
			found = true
			if strings.HasPrefix(ax.Induct, "upfix ") || strings.HasPrefix(ax.Induct, "up ") {
				st.assume(r.upfixConclusion(env, ax))
				r.usedLemmas[n] = true
				continue
			}
			st.assume(r.specBool(env, ax.C, "lemma "+ax.Name))
			if !ax.Lemma {
				r.assumption("axiom " + ax.Name + ": " + ax.C.Text)
			}
			r.usedLemmas[n] = true
		}
		if !found {
			panic(toolLimit("unknown lemma / axiom " + n))
		}
	}
}

// capturedAndOuterParams: the variables a closure unit sees - those it references plus the parameters (and receiver)
// of its enclosing functions, which its contract may mention even when the body does not.
func (r *UnitRun) capturedAndOuterParams(u *Unit) []*types.Var {
	out := r.capturedVars(u)
	seen := map[*types.Var]bool{}
	for _, v := range out {
		seen[v] = true
	}
	for p := u.Parent; p != nil; p = p.Parent {
		if p.Recv != nil && !seen[p.Recv] {
			seen[p.Recv] = true
			out = append(out, p.Recv)
		}
		for i := 0; i < p.Sig.Params().Len(); i++ {
			v := p.Sig.Params().At(i)
			if v.Name() == "" || v.Name() == "_" || seen[v] {
				continue
			}
			shadowed := false
			for _, w := range out {
				if w.Name() == v.Name() {
					shadowed = true
				}
			}
			if !shadowed {
				seen[v] = true
				out = append(out, v)
			}
		}
	}
	return out
}

// bindEdgeGhost states srcOf(f) / tgtOf(f) for an escaping back-edge closure with function term f. The source / target
// clauses are spec expressions evaluated where the closure is created; inside the closure's own unit an expression that
// cannot be evaluated (it mentions locals of the creating function) is an unconstrained ghost tensor. The ghost names
// "src" and "tgt" are bound in both cases.
func (r *UnitRun) bindEdgeGhost(st *State, u *Unit, f string) map[string]Val {
	out := map[string]Val{}
	defer func() {
		if r.unit == u {
			for k, v := range out {
				st.ghost[k] = v
			}
		}
	}()
	for _, x := range []struct{ fn, expr, ghost string }{{"srcOf", u.Source, "src"}, {"tgtOf", u.Target, "tgt"}} {
		if x.expr == "" {
			continue
		}
		r.needDomain(x.fn)
		var term string
		if x.expr == "nil" {
			term = "nilT"
		} else {
			e, err := parser.ParseExpr(x.expr)
			if err != nil {
				panic(toolLimit("source/target of " + u.Name + ": " + err.Error()))
			}
			func() {
				defer func() {
					if rec := recover(); rec != nil {
						if _, ok := rec.(specError); ok && r.unit == u {
							term = r.fresh(x.ghost, "T")
							return
						}
						panic(rec)
					}
				}()
				env := &SpecEnv{run: r, st: st, old: r.entry, bound: map[string]Val{}}
				v := env.eval(e)
				if v.K != KRef || v.Sort != "T" {
					specFail("source/target %q is not a tensor", x.expr)
				}
				term = v.T
			}()
		}
		st.assume(eq(sx(x.fn, f), term))
		out[x.ghost] = Val{K: KRef, T: term, Sort: "T", Go: r.tensorIfaceType()}
	}
	return out
}

func (r *UnitRun) tensorIfaceType() types.Type {
	for _, p := range r.prog.Pkgs {
		if shortName(p.PkgPath) == "itensor" {
			return p.Types.Scope().Lookup("Tensor").Type()
		}
	}
	return nil
}

// verifyLemma proves a lemma from the domain axioms alone.
func verifyLemma(p *Program, ax Axiom) (res *UnitResult) {
	var pkg *Unit
	for _, n := range sortedKeys(p.Units) {
		if p.Units[n].Short == ax.Short && !p.Units[n].Abstract {
			pkg = p.Units[n]
			break
		}
	}
	u := &Unit{Name: "lemma." + ax.Name, Short: ax.Short, Pkg: pkg.Pkg, HasSpec: true, Loops: map[int]*LoopSpec{}, Where: ax.C.Where}
	r := newUnitRun(p, u)
	res = &UnitResult{Unit: u, Run: r}
	defer func() {
		if x := recover(); x != nil {
			switch e := x.(type) {
			case toolLimit:
				r.limit("%s", string(e))
			case specError:
				r.limit("spec: %s", string(e))
			default:
				panic(x)
			}
		}
		res.Obls = r.obls
		res.Limits = r.limits
		res.Paths = 1
	}()
	st := &State{u: r, vars: map[types.Object]Val{}, names: map[string]types.Object{}, arrs: map[*Obj]string{}, heap: map[string]string{}, frozen: map[*Obj]bool{}, ghost: map[string]Val{}}
	r.entry = st.clone()
	env := &SpecEnv{run: r, st: st, old: r.entry, bound: map[string]Val{}}
	if len(ax.C.Uses) > 0 {
		// a lemma may use lemmas declared before it (no cycles)
		earlier := map[string]bool{}
		for _, a2 := range p.Axioms {
			if a2.Name == ax.Name {
				break
			}
			earlier[a2.Name] = true
		}
		for _, n := range ax.C.Uses {
			if !earlier[n] {
				panic(toolLimit("lemma " + ax.Name + " uses " + n + ", which is not declared before it"))
			}
		}
		r.assumeNamed(st, ax.C.Uses)
	}
	if ax.Induct != "" {
		// induction on hi - lo: base and step are the obligations; the quantified conclusion is what "uses" provides
		mk := func(src string) Clause {
			e, err := parser.ParseExpr(src)
			if err != nil {
				panic(toolLimit("induct " + ax.Name + ": " + err.Error()))
			}
			return Clause{Expr: e, Text: src, Where: ax.C.Where}
		}
		var base, step Clause
		if strings.HasPrefix(ax.Induct, "upfix ") {
			// induction on k for every fixed value of the body's leading universally quantified variables: the body is
			// forall ctx. M(ctx, k); base: forall ctx. M(ctx, 0); step: forall k >= 0, ctx. M(ctx, k) => M(ctx, k+1). The induction
			// hypothesis is then used at the same ctx as the goal (no quantifier instantiation needed).
			b := strings.TrimPrefix(ax.Induct, "upfix ")
			tok := "k!ind"
			e1, err := parser.ParseExpr(fmt.Sprintf("%s(kInd)", b))
			if err != nil {
				panic(toolLimit("induct " + ax.Name + ": " + err.Error()))
			}
			envK := &SpecEnv{run: r, st: st, old: r.entry, bound: map[string]Val{"kInd": intV(tok)}}
			full := envK.boolOf(e1)
			binders, matrix := peelForall(full)
			matrix = stripPattern(matrix) // an explicit trigger is for the users of the lemma, not for its own proof
			sub := func(with string) string { return strings.ReplaceAll(matrix, tok, with) }
			bs := strings.Join(binders, " ")
			wrap := func(body string) string {
				if bs == "" {
					return body
				}
				return fmt.Sprintf("(forall (%s) %s)", bs, body)
			}
			r.oblige(st, "lemma", "base", wrap(sub("0")), nil, "induction base (k == 0, every context) of "+ax.Name, nil)
			r.oblige(st, "lemma", "step", fmt.Sprintf("(forall ((k!x Int)) %s)", wrap(implies(and(sx("<=", "0", "k!x"), sub("k!x")), sub("(+ k!x 1)")))), nil, "induction step (k => k+1, same context) of "+ax.Name, nil)
			r.assumption("induction principle on k (upwards from 0, context fixed) for " + ax.Name + " (base and step are machine-checked; the principle itself is qv's)")
			r.oblige(st, "canary", "entry", "false", nil, "domain axioms are consistent (must NOT be provable)", nil)
			return res
		}
		if strings.HasPrefix(ax.Induct, "up ") {
			b := strings.TrimPrefix(ax.Induct, "up ")
			base = mk(fmt.Sprintf("%s(0)", b))
			step = mk(fmt.Sprintf("forallI(k, imp(0 <= k && %s(k), %s(k+1)))", b, b))
		} else {
			base = mk(fmt.Sprintf("forallI(lo, forallI(hi, imp(lo == hi, %s(lo, hi))))", ax.Induct))
			step = mk(fmt.Sprintf("forallI(lo, forallI(hi, imp(lo < hi && %s(lo+1, hi), %s(lo, hi))))", ax.Induct, ax.Induct))
		}
		r.oblige(st, "lemma", "base", r.specBool(env, base, "induction base of "+ax.Name), nil, "induction base (lo == hi) of "+ax.Name, nil)
		r.oblige(st, "lemma", "step", r.specBool(env, step, "induction step of "+ax.Name), nil, "induction step (lo+1 => lo) of "+ax.Name, nil)
		on := "hi - lo"
		if strings.HasPrefix(ax.Induct, "up ") {
			on = "k (upwards from 0)"
		}
		r.assumption("induction principle on " + on + " for " + ax.Name + " (base and step are machine-checked; the principle itself is qv's)")
		r.oblige(st, "canary", "entry", "false", nil, "domain axioms are consistent (must NOT be provable)", nil)
		return res
	}
	goal := r.specBool(env, ax.C, "lemma "+ax.Name)
	r.oblige(st, "lemma", "0", goal, nil, "lemma "+ax.Name+": "+ax.C.Text, nil)
	r.oblige(st, "canary", "entry", "false", nil, "domain axioms are consistent (must NOT be provable)", nil)
	return res
}

// extraDeclText returns the on-demand declarations (domain functions, axioms) this unit needs.
func (r *UnitRun) extraDeclText() string {
	var b strings.Builder
	for _, k := range r.needOrd {
		b.WriteString(r.extra[k])
		b.WriteString("\n")
	}
	return b.String()
}

func (o *Obligation) smt(withModel bool) string { return o.smtMode(withModel, false) }

// smtHeader: declarations (world declarations pruned to what `mention` and the unit's own text use, the unit's named
// axioms and its constants) for a script whose assertions are written by the caller.
func (r *UnitRun) smtHeader(mention string) string {
	var body strings.Builder
	body.WriteString(r.extraDeclText())
	body.WriteString(r.decls.dump())
	return "(set-option :produce-models true)\n(set-logic ALL)\n" + r.prog.World.decls.prunedDump(body.String()+mention) + body.String()
}

// smtMode: groundOnly drops the index-quantified facts whose instance at the Skolem index was added (a weaker set of
// hypotheses: unsat is still a proof; anything else falls back to the full query).
func (o *Obligation) smtMode(withModel, groundOnly bool) string {
	r := o.run
	var b strings.Builder
	b.WriteString("(set-option :produce-models true)\n(set-logic ALL)\n")
	var body strings.Builder
	body.WriteString(r.extraDeclText())
	body.WriteString(r.decls.dump())
	gdecl, gextra, goal := "", []string(nil), o.Goal
	var replaced []bool
	if o.Kind != "canary" {
		gdecl, gextra, goal, replaced = groundObligation(o.Facts, o.Goal)
	}
	if groundOnly && len(gextra) == 0 {
		return ""
	}
	var asserts strings.Builder
	asserts.WriteString(gdecl)
	for i, f := range o.Facts {
		if groundOnly && replaced != nil && replaced[i] {
			continue
		}
		asserts.WriteString("(assert ")
		asserts.WriteString(f)
		asserts.WriteString(")\n")
	}
	for _, f := range gextra {
		asserts.WriteString("(assert ")
		asserts.WriteString(f)
		asserts.WriteString(")\n")
	}
	asserts.WriteString("(assert (not ")
	asserts.WriteString(goal)
	asserts.WriteString("))\n(check-sat)\n")
	if withModel {
		var terms []string
		for _, k := range sortedKeys(o.Vars) {
			if strings.HasPrefix(k, "arr(") || strings.HasPrefix(k, "elem(") {
				continue
			}
			terms = append(terms, o.Vars[k])
		}
		terms = append(terms, o.replayTerms()...)
		if len(terms) > 0 {
			asserts.WriteString("(get-value (" + strings.Join(terms, " ") + "))\n")
		}
	}
	// world-level declarations: only those this query mentions, in an order fixed by that set (a query must not
	// depend on which units were processed earlier); world-level text never contains assertions
	wd := r.prog.World.decls.prunedDump(body.String() + asserts.String())
	if strings.Contains(wd, "(assert") {
		panic("qv internal error: world-level declarations contain an assertion")
	}
	b.WriteString(wd)
	b.WriteString(body.String())
	b.WriteString(asserts.String())
	return b.String()
}

// unitsFor selects units by name patterns ("pkg.*", exact names) and expands to nested literals.
func (p *Program) unitsFor(patterns []string) []*Unit {
	seen := map[string]bool{}
	var out []*Unit
	names := sortedKeys(p.Units)
	for _, pat := range patterns {
		for _, n := range names {
			if matchPattern(pat, n) && !seen[n] {
				seen[n] = true
				out = append(out, p.Units[n])
			}
		}
	}
	sort.Slice(out, func(i, j int) bool { return out[i].Name < out[j].Name })
	return out
}

func matchPattern(pat, name string) bool {
	if strings.HasSuffix(pat, "*") {
		return strings.HasPrefix(name, strings.TrimSuffix(pat, "*"))
	}
	return pat == name || strings.HasPrefix(name, pat+"#")
}

var _ = ast.Inspect
var _ = fmt.Sprint

// peelForall splits "(forall (b1) (forall (b2 b3) M))" into the binders [b1 b2 b3] and the matrix M.
func peelForall(q string) ([]string, string) {
	var binders []string
	for {
		q = strings.TrimSpace(q)
		if !strings.HasPrefix(q, "(forall (") {
			return binders, q
		}
		// binder list
		i := len("(forall ")
		depth := 0
		j := i
		for ; j < len(q); j++ {
			if q[j] == '(' {
				depth++
			} else if q[j] == ')' {
				depth--
				if depth == 0 {
					break
				}
			}
		}
		list := q[i+1 : j] // inside the outer parens of the binder list
		// split top-level binders "(v S)"
		d2, start := 0, -1
		for k := 0; k < len(list); k++ {
			if list[k] == '(' {
				if d2 == 0 {
					start = k
				}
				d2++
			} else if list[k] == ')' {
				d2--
				if d2 == 0 && start >= 0 {
					binders = append(binders, list[start:k+1])
					start = -1
				}
			}
		}
		body := strings.TrimSpace(q[j+1:])
		body = strings.TrimSuffix(body, ")")
		q = body
	}
}

// stripPattern removes a top-level "(! body :pattern (...))" wrapper.
func stripPattern(m string) string {
	m = strings.TrimSpace(m)
	if !strings.HasPrefix(m, "(! ") {
		return m
	}
	inner := m[3:]
	depth := 0
	for i := 0; i < len(inner); i++ {
		switch inner[i] {
		case '(':
			depth++
		case ')':
			depth--
		}
		if depth == 0 && (inner[i] == ')' || inner[i] == ' ') && i > 0 {
			// end of the first s-expression (the body)
			if inner[i] == ')' {
				return inner[:i+1]
			}
			return inner[:i]
		}
	}
	return m
}

// upfixConclusion: the statement an "upfix" induction lemma provides to its users, as ONE quantifier over k and the
// context variables (so that an explicit trigger of the body may mention all of them):
//   forall k, ctx. (! (0 <= k => M(ctx, k)) :pattern P)
func (r *UnitRun) upfixConclusion(env *SpecEnv, ax Axiom) string {
	b := strings.TrimPrefix(strings.TrimPrefix(ax.Induct, "upfix "), "up ")
	e1, err := parser.ParseExpr(fmt.Sprintf("%s(kInd)", b))
	if err != nil {
		panic(toolLimit("induct " + ax.Name + ": " + err.Error()))
	}
	qcount++
	kv := fmt.Sprintf("k!q%d", qcount)
	envK := &SpecEnv{run: r, st: env.st, old: env.old, bound: map[string]Val{"kInd": intV(kv)}}
	full := envK.boolOf(e1)
	binders, matrix := peelForall(full)
	pat := ""
	if strings.HasPrefix(strings.TrimSpace(matrix), "(! ") {
		if i := strings.LastIndex(matrix, ":pattern"); i >= 0 {
			pat = strings.TrimSuffix(strings.TrimSpace(matrix[i:]), ")")
		}
		matrix = stripPattern(matrix)
	}
	body := implies(sx("<=", "0", kv), matrix)
	if pat != "" {
		body = fmt.Sprintf("(! %s %s)", body, pat)
	}
	return fmt.Sprintf("(forall ((%s Int) %s) %s)", kv, strings.Join(binders, " "), body)
}

#!/bin/bash
# seedcheck.sh <seed-dir> : confirm a seeded change (applies cleanly, builds, suite passes, demo fails with / passes without)
set -u
export GOFLAGS=-mod=mod GOPROXY=off GOSUMDB=off GOTOOLCHAIN=local
S=$1
W=$(mktemp -d /tmp/seedconf.XXXX)
cp -r /repo/. $W/ && rm -rf $W/.git && find $W -name '*_verif.go' -delete
cp -r $S/demo $W/demo
cd $W
echo "--- demo on the original code"; (cd demo && go test -vet=off -count=1 ./... 2>&1 | tail -3)
patch -p1 -s < $S/patch.diff || { echo "PATCH DOES NOT APPLY"; rm -rf $W; exit 1; }
echo "--- build + suite with the change"; go build ./... && go test -vet=off -count=1 ./... 2>&1 | grep -v 'no test files' | grep -vc '^ok' | sed 's/^/non-ok lines: /'
go test -vet=off -count=1 -v ./... 2>&1 | grep -c '^--- PASS\|^    --- PASS' | sed 's/^/PASS lines: /'
echo "--- demo with the change"; (cd demo && go test -vet=off -count=1 ./... 2>&1 | tail -4)
rm -rf $W

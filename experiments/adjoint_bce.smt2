; BCE interior gradient: l = -(t*log(p) + (1-t)*log(1-p)); adjoint through rules == ((1-t)/(1-p) - t/p)/N * seed
(declare-const p Real) (declare-const t Real) (declare-const N Real) 
(assert (and (> p 0.0) (< p 1.0) (>= t 0.0) (<= t 1.0) (>= N 1.0)))
; root seed 1; MeanAlong rule: gl = 1/N ; Scale(-1): gs = -gl ; Add: gs1 = gs, gs2 = gs
; s1 = t*log(p): Mul rule wrt log(p): g = gs*t ; Log rule: gp1 = g / p
; s2 = (1-t)*log(1-p): Mul: g = gs*(1-t); Log: g/(1-p); Sub(_1, p) rule wrt p: * -1
(define-fun gl () Real (/ 1.0 N))
(define-fun gs () Real (* gl (- 1.0)))
(define-fun gp1 () Real (/ (* gs t) p))
(define-fun gp2 () Real (* (/ (* gs (- 1.0 t)) (- 1.0 p)) (- 1.0)))
(assert (not (= (+ gp1 gp2) (/ (- (/ (- 1.0 t) (- 1.0 p)) (/ t p)) N))))
(check-sat)

#!/usr/bin/env python3
"""Refresh the parts of MANIFEST.json that are derived from the repositories: the list of hook commits in /repo
(every commit whose subject starts with "verif hooks:"), oldest first. Validates against the schema."""
import json, subprocess
m = json.load(open('/verif/MANIFEST.json'))
log = subprocess.run(['git', '-C', '/repo', 'log', '--reverse', '--format=%H %s'], capture_output=True, text=True, check=True).stdout
m['hooks']['source_commits'] = [l.split()[0] for l in log.splitlines() if l.split(' ', 1)[1].startswith('verif hooks:')]
json.dump(m, open('/verif/MANIFEST.json', 'w'), indent=1)
try:
    import jsonschema
    jsonschema.validate(m, json.load(open('/root/.vp/MANIFEST.schema.json')))
    print('MANIFEST valid;', len(m['hooks']['source_commits']), 'hook commits')
except ImportError:
    print('jsonschema not available in this interpreter; run with python3-vt')

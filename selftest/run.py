#!/usr/bin/env python3
"""Must-fail self-test: applies each deliberate property-breaking edit to a scratch copy of /repo and requires the named
property check to raise an alarm (exit 1 with a VIOLATION line). Usage: run.py [name-substring ...] [--norac]"""
import os, shutil, subprocess, sys, tempfile, time
sys.path.insert(0, os.path.dirname(__file__))
from mutations import M
args = [a for a in sys.argv[1:] if not a.startswith("--")]
norac = "--norac" in sys.argv
ok = bad = 0
# SELFTEST_SRC: a snapshot of the repository to mutate (default: the working tree of /repo); SELFTEST_QV: the qv binary
SRC = os.environ.get("SELFTEST_SRC", "/repo").rstrip("/")
QV = os.environ.get("SELFTEST_QV", "/verif/bin/qv")
# SELFTEST_SHARD=i/n: only every n-th edit, starting at i (several shards can run side by side)
shard = os.environ.get("SELFTEST_SHARD", "0/1").split("/")
si, sn = int(shard[0]), int(shard[1])
for mi, m in enumerate(M):
    name, f, old, new, prop = m[:5]
    if mi % sn != si:
        continue
    if args and not any(a in name for a in args):
        continue
    if old is None or new is None:
        # special edits
        src = open(SRC + "/" + f).read()
        if name == "rule-mul-operand":
            i = src.index("func Mul(")
            src2 = src[:i] + src[i:].replace("return y.Gradient().Mul(b)", "return y.Gradient().Mul(a)", 1)
        elif name == "rule-meanalong-n":
            i = src.index("func MeanAlong(")
            src2 = src[:i] + src[i:].replace("n := float64(x.Shape()[dim])", "n := float64(x.Shape()[0])", 1)
        else:
            continue
    else:
        src = open(SRC + "/" + f).read()
        if old not in src:
            print(f"SKIP {name}: pattern not found"); bad += 1; continue
        src2 = src.replace(old, new, 1)
    d = tempfile.mkdtemp(prefix="qvself")
    try:
        subprocess.run(["cp", "-r", SRC + "/.", d], check=True)
        open(os.path.join(d, f), "w").write(src2)
        b = subprocess.run(["go", "build", "./..."], cwd=d, capture_output=True, text=True, env=dict(os.environ, GOFLAGS="-mod=mod", GOPROXY="off", GOSUMDB="off", GOTOOLCHAIN="local"))
        if b.returncode != 0:
            print(f"SKIP {name}: does not compile: {b.stderr[:200]}"); bad += 1; continue
        t0 = time.time()
        cmd = [QV, "check", "-prop", prop, "-tier", "quick", "-repo", d] + (["-norac"] if norac else [])
        p = subprocess.run(cmd, capture_output=True, text=True, cwd="/verif", env=dict(os.environ, QV_EVIDENCE_DIR=os.path.join(d, ".qv-evidence")))
        viol = [l for l in p.stdout.splitlines() if l.startswith("VIOLATION")]
        if p.returncode == 1 and viol:
            ok += 1
            print(f"CAUGHT {name} [{prop}] {time.time()-t0:.0f}s: {viol[0][:150]}")
        else:
            bad += 1
            print(f"MISSED {name} [{prop}] exit={p.returncode} {time.time()-t0:.0f}s: {p.stdout.strip().splitlines()[-1:]}")
    finally:
        shutil.rmtree(d, ignore_errors=True)
print(f"selftest: {ok} caught, {bad} missed/skipped")
sys.exit(0 if bad == 0 else 1)

package rac

import (
	"fmt"
	"math"
	"math/rand"
	"testing"

	"github.com/sahandsafizadeh/qeep/component/initializers"
	"github.com/sahandsafizadeh/qeep/component/layers"
	"github.com/sahandsafizadeh/qeep/component/layers/activations"
	"github.com/sahandsafizadeh/qeep/component/losses"
	"github.com/sahandsafizadeh/qeep/component/metrics"
	"github.com/sahandsafizadeh/qeep/component/optimizers"
	"github.com/sahandsafizadeh/qeep/tensor"
)

/* ---------------- C08: tracking over histories ---------------- */

// model of the specified behaviour
type hNode struct {
	t       tensor.Tensor
	tracked bool
	spent   bool
	hasGrad bool
	ops     []int // operand node ids (empty for leaves)
	live    bool  // has tracked, not yet back-propagated results computed from it (proviso b)
}

func TestTrackingHistory(t *testing.T) {
	r := newReporter("TestTrackingHistory")
	defer r.done(t)
	rng := rand.New(rand.NewSource(seed()))
	count := 300
	if thorough() {
		count = 3000
	}
	for h := 0; h < count; h++ {
		var nodes []*hNode
		mk := func(track bool) {
			nodes = append(nodes, &hNode{t: toT(randRef(rng, []int{2}, 0.5, 1.5), track), tracked: track})
		}
		mk(true)
		mk(rng.Intn(2) == 0)
		ok := true
		visited := map[int]bool{} // non-leaf nodes a back-propagation passed through (proviso a)
		for step := 0; step < 12 && ok; step++ {
			guard(r, "history", func() {
				switch k := rng.Intn(10); {
				case k == 0:
					mk(rng.Intn(2) == 0)
				case k <= 5: // unary / binary / comparison over existing tensors
					a := rng.Intn(len(nodes))
					b := rng.Intn(len(nodes))
					var y tensor.Tensor
					var ops []int
					cmp := false
					switch rng.Intn(4) {
					case 0:
						y, ops = nodes[a].t.Scale(1.1), []int{a}
					case 1:
						y, _ = nodes[a].t.Add(nodes[b].t)
						ops = []int{a, b}
					case 2:
						y, _ = nodes[a].t.Mul(nodes[b].t)
						ops = []int{a, b}
					default:
						y, _ = nodes[a].t.Gt(nodes[b].t)
						ops = []int{a, b}
						cmp = true
					}
					n := &hNode{t: y, ops: ops}
					anySpent, anyTracked := false, false
					for _, o := range ops {
						anySpent = anySpent || nodes[o].spent
						anyTracked = anyTracked || nodes[o].tracked
					}
					if !cmp {
						n.spent = anySpent
						n.tracked = !anySpent && anyTracked
					}
					nodes = append(nodes, n)
				case k <= 7: // BackPropagate on any existing tensor
					root := rng.Intn(len(nodes))
					// proviso (a): no back-propagation passes through a non-leaf tensor an earlier one passed through
					var reach []int
					seen := map[int]bool{}
					var walk func(i int)
					walk = func(i int) {
						if seen[i] || !nodes[i].tracked {
							return
						}
						seen[i] = true
						reach = append(reach, i)
						for _, o := range nodes[i].ops {
							walk(o)
						}
					}
					walk(root)
					for _, i := range reach {
						if len(nodes[i].ops) > 0 && visited[i] {
							return
						}
					}
					if err := tensor.BackPropagate(nodes[root].t); err != nil {
						r.fail("history:backprop-error", err.Error())
						ok = false
						return
					}
					for _, i := range reach {
						nodes[i].hasGrad = true
						nodes[i].spent = true
						if len(nodes[i].ops) > 0 {
							visited[i] = true
						}
					}
				default: // ResetGradContext on a leaf that has no live tracked results (proviso b)
					i := rng.Intn(len(nodes))
					if len(nodes[i].ops) > 0 {
						return
					}
					for j, n := range nodes {
						if n.tracked && !n.spent && j != i {
							for _, o := range n.ops {
								if o == i {
									return
								}
							}
						}
					}
					// also results of results
					liveDep := false
					var dep func(j int) bool
					dep = func(j int) bool {
						for _, o := range nodes[j].ops {
							if o == i || dep(o) {
								return true
							}
						}
						return false
					}
					for j, n := range nodes {
						if n.tracked && !n.spent && dep(j) {
							liveDep = true
						}
					}
					if liveDep {
						return
					}
					tr := rng.Intn(2) == 0
					nodes[i].t.ResetGradContext(tr)
					nodes[i].tracked, nodes[i].spent, nodes[i].hasGrad = tr, false, false
				}
			})
			// observe: gradient presence must match the model; tracking is observed through a probe operation
			for i, n := range nodes {
				if (n.t.Gradient() != nil) != n.hasGrad {
					r.fail("history:gradient-presence", fmt.Sprintf("history %d step %d node %d: gradient present=%v, model=%v", h, step, i, n.t.Gradient() != nil, n.hasGrad))
					ok = false
					break
				}
			}
		}
		if ok {
			r.ok(fmt.Sprintf("history %d: %d tensors", h, len(nodes)))
		}
	}
}

/* ---------------- C09: totality sweep ---------------- */

func ints(rng *rand.Rand, n int) []int {
	s := make([]int, n)
	for i := range s {
		s[i] = rng.Intn(9) - 2
	}
	return s
}

func ranges(rng *rand.Rand, n int) []tensor.Range {
	s := make([]tensor.Range, n)
	for i := range s {
		s[i] = tensor.Range{From: rng.Intn(9) - 2, To: rng.Intn(9) - 2}
	}
	return s
}

// ragged nested data of depth 1..4
func ragged(rng *rand.Rand, depth int, raggedness bool) any {
	ln := func() int { return rng.Intn(3) }
	switch depth {
	case 1:
		return make([]float64, ln())
	case 2:
		o := make([][]float64, ln())
		w := ln()
		for i := range o {
			if raggedness {
				w = ln()
			}
			o[i] = make([]float64, w)
		}
		return o
	case 3:
		o := make([][][]float64, ln())
		w1, w2 := ln(), ln()
		for i := range o {
			if raggedness && rng.Intn(2) == 0 {
				w1 = ln()
			}
			o[i] = make([][]float64, w1)
			for j := range o[i] {
				if raggedness && rng.Intn(2) == 0 {
					w2 = ln()
				}
				o[i][j] = make([]float64, w2)
			}
		}
		return o
	default:
		o := make([][][][]float64, ln())
		w1, w2, w3 := ln(), ln(), ln()
		for i := range o {
			if raggedness && rng.Intn(2) == 0 {
				w1 = ln()
			}
			o[i] = make([][][]float64, w1)
			for j := range o[i] {
				if raggedness && rng.Intn(2) == 0 {
					w2 = ln()
				}
				o[i][j] = make([][]float64, w2)
				for k := range o[i][j] {
					if raggedness && rng.Intn(2) == 0 {
						w3 = ln()
					}
					o[i][j][k] = make([]float64, w3)
				}
			}
		}
		return o
	}
}

func rectangular(v any) ([]int, bool) {
	switch d := v.(type) {
	case []float64:
		return []int{len(d)}, len(d) > 0
	case [][]float64:
		if len(d) == 0 {
			return nil, false
		}
		var first []int
		for i, s := range d {
			sh, ok := rectangular(s)
			if !ok || (i > 0 && !sameShape(sh, first)) {
				return nil, false
			}
			first = sh
		}
		return append([]int{len(d)}, first...), true
	case [][][]float64:
		if len(d) == 0 {
			return nil, false
		}
		var first []int
		for i, s := range d {
			sh, ok := rectangular(s)
			if !ok || (i > 0 && !sameShape(sh, first)) {
				return nil, false
			}
			first = sh
		}
		return append([]int{len(d)}, first...), true
	case [][][][]float64:
		if len(d) == 0 {
			return nil, false
		}
		var first []int
		for i, s := range d {
			sh, ok := rectangular(s)
			if !ok || (i > 0 && !sameShape(sh, first)) {
				return nil, false
			}
			first = sh
		}
		return append([]int{len(d)}, first...), true
	}
	return nil, false
}

func TestTotality(t *testing.T) {
	r := newReporter("TestTotality")
	defer r.done(t)
	rng := rand.New(rand.NewSource(seed()))
	calls := 20000
	if thorough() {
		calls = 200000
	}
	pool := []tensor.Tensor{nil}
	for _, s := range shapes(0, 3, 2) {
		pool = append(pool, toT(randRef(rng, s, -1, 1), rng.Intn(2) == 0))
	}
	pick := func() tensor.Tensor { return pool[rng.Intn(len(pool))] }
	pickNN := func() tensor.Tensor { return pool[1+rng.Intn(len(pool)-1)] }
	call := func(name string, f func()) {
		guard(r, "totality:"+name, func() { f(); r.ok("") })
	}
	sm, _ := activations.NewSoftmax(&activations.SoftmaxConfig{Dim: 1})
	for c := 0; c < calls; c++ {
		x := pickNN()
		switch rng.Intn(40) {
		case 0:
			call("Full", func() { tensor.Full(ints(rng, rng.Intn(4)), 1, nil) })
		case 1:
			call("Eye", func() { tensor.Eye(rng.Intn(9)-2, nil) })
		case 2:
			call("RandU", func() { tensor.RandU(ints(rng, rng.Intn(3)), float64(rng.Intn(3)), float64(rng.Intn(3)), nil) })
		case 3:
			call("RandN", func() { tensor.RandN(ints(rng, rng.Intn(3)), 0, float64(rng.Intn(3)-1), &tensor.Config{Device: tensor.Device(rng.Intn(3))}) })
		case 4:
			depth := 1 + rng.Intn(4)
			data := ragged(rng, depth, rng.Intn(2) == 0)
			call(fmt.Sprintf("TensorOf/depth%d", depth), func() {
				var got tensor.Tensor
				var err error
				switch d := data.(type) {
				case []float64:
					got, err = tensor.TensorOf(d, nil)
				case [][]float64:
					got, err = tensor.TensorOf(d, nil)
				case [][][]float64:
					got, err = tensor.TensorOf(d, nil)
				case [][][][]float64:
					got, err = tensor.TensorOf(d, nil)
				}
				sh, ok := rectangular(data)
				if ok && (err != nil || !sameShape(got.Shape(), sh)) {
					r.fail(fmt.Sprintf("totality:TensorOf/depth%d:rejected", depth), fmt.Sprintf("rectangular data of shape %v rejected: %v", sh, err))
				}
				if !ok && err == nil {
					r.fail(fmt.Sprintf("totality:TensorOf/depth%d:accepted", depth), "ragged or empty data accepted")
				}
			})
		case 5:
			call("Concat", func() {
				n := rng.Intn(4)
				ts := make([]tensor.Tensor, n)
				for i := range ts {
					ts[i] = pick()
				}
				tensor.Concat(ts, rng.Intn(6)-2)
			})
		case 6:
			call("BackPropagate", func() { tensor.BackPropagate(pick()) })
		case 7:
			call("At", func() { x.At(ints(rng, rng.Intn(4))...) })
		case 8:
			call("Slice", func() { x.Slice(ranges(rng, rng.Intn(4))) })
		case 9:
			call("Patch", func() { x.Patch(ranges(rng, rng.Intn(4)), pick()) })
		case 10:
			call("Transpose", func() { x.Transpose() })
		case 11:
			call("Reshape", func() { x.Reshape(ints(rng, rng.Intn(4))) })
		case 12:
			call("UnSqueeze", func() { x.UnSqueeze(rng.Intn(9) - 2) })
		case 13:
			call("Squeeze", func() { x.Squeeze(rng.Intn(9) - 2) })
		case 14:
			call("Flatten", func() { x.Flatten(rng.Intn(9) - 2) })
		case 15:
			call("Broadcast", func() { x.Broadcast(ints(rng, rng.Intn(4))) })
		case 16:
			call("Along", func() {
				d := rng.Intn(9) - 2
				x.SumAlong(d)
				x.MaxAlong(d)
				x.MinAlong(d)
				x.AvgAlong(d)
				x.VarAlong(d)
				x.StdAlong(d)
				x.MeanAlong(d)
			})
		case 17:
			call("Whole", func() { x.Sum(); x.Max(); x.Min(); x.Avg(); x.Var(); x.Std(); x.Mean(); x.NElems(); x.Shape() })
		case 18:
			call("Unary", func() { x.Scale(2); x.Pow(-1); x.Exp(); x.Log(); x.Sin(); x.Cos(); x.Tan(); x.Sinh(); x.Cosh(); x.Tanh() })
		case 19:
			call("Binary", func() {
				y := pick()
				x.Eq(y)
				x.Ne(y)
				x.Gt(y)
				x.Ge(y)
				x.Lt(y)
				x.Le(y)
				x.ElMax(y)
				x.ElMin(y)
				x.Add(y)
				x.Sub(y)
				x.Mul(y)
				x.Div(y)
				x.Dot(y)
				x.MatMul(y)
				x.Equals(y)
			})
		case 20:
			call("Gradient", func() { x.Gradient(); x.GradContext() })
		case 21:
			call("Input", func() { layers.NewInput().Forward() })
		case 22:
			call("Input/args", func() { layers.NewInput().Forward(pick()) })
		case 23:
			call("NewFC", func() {
				var conf *layers.FCConfig
				if rng.Intn(4) != 0 {
					conf = &layers.FCConfig{Inputs: rng.Intn(5) - 1, Outputs: rng.Intn(5) - 1}
					if rng.Intn(3) == 0 {
						conf.Initializers = map[string]layers.Initializer{"Weight": nil}
					}
				}
				fc, err := layers.NewFC(conf)
				if err == nil {
					fc.Forward(pick())
					fc.Forward()
					fc.Forward(pick(), pick())
					fc.Weights()
				}
			})
		case 24:
			call("Activations", func() {
				y := pick()
				activations.NewRelu().Forward(y)
				activations.NewLeakyRelu(nil).Forward(y)
				activations.NewSigmoid().Forward(y)
				activations.NewTanh().Forward(y)
				activations.NewRelu().Forward()
				activations.NewSoftmax(&activations.SoftmaxConfig{Dim: rng.Intn(5) - 2})
			})
		case 25:
			call("Softmax", func() { sm.Forward(pick()) })
		case 26:
			call("Losses", func() {
				p, q := pick(), pick()
				losses.NewMSE().Compute(p, q)
				losses.NewBCE().Compute(p, q)
				losses.NewCE().Compute(p, q)
			})
		case 27:
			call("Accuracy", func() { a := metrics.NewAccuracy(); a.Accumulate(pick(), pick()); a.Result() })
		case 28:
			call("SGD", func() {
				o := optimizers.NewSGD(nil)
				o.Update(nil)
				var nilT tensor.Tensor
				o.Update(&nilT)
				y := pick()
				o.Update(&y)
			})
		case 29:
			call("Initializers", func() {
				s := ints(rng, rng.Intn(3))
				initializers.NewFull(nil).Init(s)
				if u, err := initializers.NewUniform(&initializers.UniformConfig{Lower: float64(rng.Intn(3)), Upper: float64(rng.Intn(3))}); err == nil {
					u.Init(s)
				}
				if u, err := initializers.NewNormal(&initializers.NormalConfig{StdDev: float64(rng.Intn(3) - 1)}); err == nil {
					u.Init(s)
				}
				if u, err := initializers.NewHeUniform(&initializers.HeUniformConfig{FanIn: rng.Intn(4) - 1}); err == nil {
					u.Init(s)
				}
				if u, err := initializers.NewHeNormal(nil); err == nil {
					u.Init(s)
				}
				if u, err := initializers.NewXavierUniform(&initializers.XavierUniformConfig{FanIn: rng.Intn(4) - 1, FanOut: rng.Intn(4) - 1}); err == nil {
					u.Init(s)
				}
				if u, err := initializers.NewXavierNormal(&initializers.XavierNormalConfig{FanIn: rng.Intn(4) - 1, FanOut: rng.Intn(4) - 1}); err == nil {
					u.Init(s)
				}
			})
		default:
			call("Reset", func() { y := pickNN(); y.ResetGradContext(rng.Intn(2) == 0) })
		}
	}
}

/* ---------------- C10: decoupling from caller-owned slices ---------------- */

func TestAliasing(t *testing.T) {
	r := newReporter("TestAliasing")
	defer r.done(t)
	rng := rand.New(rand.NewSource(seed()))
	scramble := func(s []int) {
		for i := range s {
			s[i] = 7
		}
	}
	for _, shape := range shapes(1, 3, 3) {
		a := randRef(rng, shape, -1, 1)
		// dims passed to constructors
		d := append([]int{}, shape...)
		x, _ := tensor.Full(d, 1, nil)
		scramble(d)
		if !sameShape(x.Shape(), shape) {
			r.fail("alias:Full-dims", fmt.Sprint(shape))
		}
		// Shape() handed out
		xt := toT(a, true)
		s := xt.Shape()
		scramble(s)
		if !sameShape(xt.Shape(), shape) {
			r.fail("alias:Shape", fmt.Sprint(shape))
		}
		// Reshape / Broadcast targets
		tg := []int{numel(shape)}
		y, _ := xt.Reshape(tg)
		scramble(tg)
		if !sameShape(y.Shape(), []int{numel(shape)}) {
			r.fail("alias:Reshape-shape", fmt.Sprint(shape))
		}
		bt := append([]int{2}, shape...)
		z, _ := xt.Broadcast(bt)
		scramble(bt)
		if !sameShape(z.Shape(), append([]int{2}, shape...)) {
			r.fail("alias:Broadcast-shape", fmt.Sprint(shape))
		}
		// index ranges of Slice / Patch, mutated between the forward call and BackPropagate
		guard(r, "alias:Slice-index", func() {
			leaf := toT(a, true)
			idx := []tensor.Range{{From: shape[0] - 1, To: shape[0]}}
			sl, err := leaf.Slice(idx)
			if err != nil {
				return
			}
			idx[0] = tensor.Range{From: 0, To: 1}
			if err := tensor.BackPropagate(sl); err != nil {
				r.fail("alias:Slice-index", "back-propagation failed after the caller mutated its index: "+err.Error())
				return
			}
			want := newRef(shape)
			row := numel(shape[1:])
			for i := 0; i < row; i++ {
				want.Data[(shape[0]-1)*row+i] = 1
			}
			if msg := eqRef(leaf.Gradient(), want, 0); msg != "" && shape[0] > 1 {
				r.fail("alias:Slice-index", fmt.Sprintf("shape %v: gradient moved with the caller's index: %s", shape, msg))
			} else {
				r.ok("Slice index decoupled")
			}
		})
		guard(r, "alias:Patch-index", func() {
			leaf := toT(a, true)
			ps := append([]int{1}, shape[1:]...)
			p := toT(randRef(rng, ps, 5, 6), true)
			idx := []tensor.Range{{From: shape[0] - 1, To: shape[0]}}
			pt, err := leaf.Patch(idx, p)
			if err != nil {
				return
			}
			idx[0] = tensor.Range{From: 0, To: 1}
			if err := tensor.BackPropagate(pt); err != nil {
				r.fail("alias:Patch-index", err.Error())
				return
			}
			want := newRef(shape)
			for i := range want.Data {
				want.Data[i] = 1
			}
			row := numel(shape[1:])
			for i := 0; i < row; i++ {
				want.Data[(shape[0]-1)*row+i] = 0
			}
			if msg := eqRef(leaf.Gradient(), want, 0); msg != "" && shape[0] > 1 {
				r.fail("alias:Patch-index", fmt.Sprintf("shape %v: %s", shape, msg))
			} else {
				r.ok("Patch index decoupled")
			}
		})
		// tensor lists of Concat
		guard(r, "alias:Concat-list", func() {
			l1, l2 := toT(a, true), toT(a, true)
			ts := []tensor.Tensor{l1, l2}
			c, err := tensor.Concat(ts, 0)
			if err != nil {
				return
			}
			ts[0], ts[1] = nil, nil
			if err := tensor.BackPropagate(c); err != nil || l1.Gradient() == nil || l2.Gradient() == nil {
				r.fail("alias:Concat-list", fmt.Sprint(err))
			} else {
				r.ok("Concat list decoupled")
			}
		})
		// operations do not change existing tensors
		before := fromT(xt)
		xt.Scale(3)
		xt.Add(xt)
		xt.Slice(nil)
		o := optimizers.NewSGD(nil)
		w := toT(a, true)
		wv := w.Scale(1)
		tensor.BackPropagate(wv)
		old := w
		og := fromT(w.Gradient())
		o.Update(&w)
		if eqRef(xt, before, 0) != "" || eqRef(old, a, 0) != "" || eqRef(old.Gradient(), og, 0) != "" {
			r.fail("alias:immutability", fmt.Sprint(shape))
		} else {
			r.ok("immutable")
		}
	}
	// only BackPropagate assigns gradients: shape-preserving ("identity") calls of every shape operation neither drop the
	// receiver's gradient, nor hand the receiver back, nor disturb a later back-propagation through the receiver
	for _, shape := range shapes(1, 3, 3) {
		a := randRef(rng, shape, -1, 1)
		last := len(shape) - 1
		idops := []struct {
			name string
			f    func(x tensor.Tensor) (tensor.Tensor, error)
		}{
			{"Reshape-same", func(x tensor.Tensor) (tensor.Tensor, error) { return x.Reshape(append([]int{}, shape...)) }},
			{"Flatten-last", func(x tensor.Tensor) (tensor.Tensor, error) { return x.Flatten(last) }},
			{"Broadcast-same", func(x tensor.Tensor) (tensor.Tensor, error) { return x.Broadcast(append([]int{}, shape...)) }},
			{"Slice-nil", func(x tensor.Tensor) (tensor.Tensor, error) { return x.Slice(nil) }},
			{"Patch-nil", func(x tensor.Tensor) (tensor.Tensor, error) { return x.Patch(nil, x) }},
			{"Transpose", func(x tensor.Tensor) (tensor.Tensor, error) {
				if len(shape) < 2 {
					return x.Scale(1), nil
				}
				return x.Transpose()
			}},
			{"Concat-single", func(x tensor.Tensor) (tensor.Tensor, error) { return tensor.Concat([]tensor.Tensor{x}, 0) }},
			{"UnSqueeze-Squeeze", func(x tensor.Tensor) (tensor.Tensor, error) {
				u, err := x.UnSqueeze(0)
				if err != nil {
					return nil, err
				}
				return u.Squeeze(0)
			}},
			{"Pow1", func(x tensor.Tensor) (tensor.Tensor, error) { return x.Pow(1), nil }},
			{"Scale1", func(x tensor.Tensor) (tensor.Tensor, error) { return x.Scale(1), nil }},
		}
		for _, op := range idops {
			op := op
			guard(r, "alias:identity-"+op.name, func() {
				// (a) a gradient assigned earlier survives
				w := toT(a, true)
				if err := tensor.BackPropagate(w.Scale(3)); err != nil {
					return
				}
				g0 := fromT(w.Gradient())
				y, err := op.f(w)
				if err != nil {
					return
				}
				if y == w {
					r.fail("alias:identity-"+op.name, fmt.Sprintf("shape %v: the operation handed its receiver back", shape))
					return
				}
				if w.Gradient() == nil || eqRef(w.Gradient(), g0, 0) != "" {
					r.fail("alias:identity-"+op.name, fmt.Sprintf("shape %v: the receiver's gradient changed without a back-propagation", shape))
					return
				}
				// (b) an unused result does not disturb a later back-propagation
				x := toT(a, true)
				if _, err := op.f(x); err != nil {
					return
				}
				if x.Gradient() != nil {
					r.fail("alias:identity-"+op.name, fmt.Sprintf("shape %v: a gradient appeared without a back-propagation", shape))
					return
				}
				if err := tensor.BackPropagate(x.Scale(2)); err != nil {
					r.fail("alias:identity-"+op.name, "back-propagation failed: "+err.Error())
					return
				}
				want := newRef(shape)
				for i := range want.Data {
					want.Data[i] = 2
				}
				if msg := eqRef(x.Gradient(), want, 1e-12); msg != "" {
					r.fail("alias:identity-"+op.name, fmt.Sprintf("shape %v: later back-propagation disturbed: %s", shape, msg))
					return
				}
				r.ok("identity call leaves the receiver alone")
			})
		}
	}
	// operands that come out of other operations (their dimension lists may have spare capacity: reducers, products):
	// no later operation or back-propagation changes their shape or elements (seed C10-5)
	{
		base := randRef(rng, []int{2, 3, 2, 3}, -1, 1)
		producers := map[string]func(x tensor.Tensor) (tensor.Tensor, error){
			"SumAlong2": func(x tensor.Tensor) (tensor.Tensor, error) { return x.SumAlong(2) },
			"MaxAlong1": func(x tensor.Tensor) (tensor.Tensor, error) { return x.MaxAlong(1) },
			"StdAlong2": func(x tensor.Tensor) (tensor.Tensor, error) { return x.StdAlong(2) },
			"MatMul":    func(x tensor.Tensor) (tensor.Tensor, error) { t, _ := x.Transpose(); return x.MatMul(t) },
			"Squeeze": func(x tensor.Tensor) (tensor.Tensor, error) {
				s, err := x.SumAlong(2)
				if err != nil {
					return nil, err
				}
				u, err := s.UnSqueeze(2)
				if err != nil {
					return nil, err
				}
				return u.Squeeze(2)
			},
		}
		later := map[string]func(y tensor.Tensor) (tensor.Tensor, error){
			"UnSqueeze0": func(y tensor.Tensor) (tensor.Tensor, error) { return y.UnSqueeze(0) },
			"UnSqueeze1": func(y tensor.Tensor) (tensor.Tensor, error) { return y.UnSqueeze(1) },
			"Flatten0":   func(y tensor.Tensor) (tensor.Tensor, error) { return y.Flatten(0) },
			"Transpose":  func(y tensor.Tensor) (tensor.Tensor, error) { return y.Transpose() },
			"SumAlong0":  func(y tensor.Tensor) (tensor.Tensor, error) { return y.SumAlong(0) },
			"Reshape":    func(y tensor.Tensor) (tensor.Tensor, error) { return y.Reshape([]int{numel(y.Shape())}) },
			"Broadcast":  func(y tensor.Tensor) (tensor.Tensor, error) { return y.Broadcast(append([]int{2}, y.Shape()...)) },
		}
		for pn, prod := range producers {
			for ln, op := range later {
				pn, ln, prod, op := pn, ln, prod, op
				guard(r, "alias:derived-operand", func() {
					y, err := prod(toT(base, true))
					if err != nil {
						return
					}
					before := fromT(y)
					if _, err := op(y); err != nil {
						return
					}
					if msg := eqRef(y, before, 0); msg != "" {
						r.fail("alias:derived-operand", fmt.Sprintf("%s then %s changed its operand: %s", pn, ln, msg))
						return
					}
					// and a back-propagation through the producer leaves its result's shape and elements alone
					x2 := toT(base, true)
					y2, err := prod(x2)
					if err != nil {
						return
					}
					b2 := fromT(y2)
					if err := tensor.BackPropagate(y2); err != nil {
						return
					}
					if msg := eqRef(y2, b2, 0); msg != "" {
						r.fail("alias:derived-operand", fmt.Sprintf("back-propagation from the result of %s changed that result: %s", pn, msg))
						return
					}
					r.ok("derived operand untouched")
				})
			}
		}
	}
	// nested data passed to TensorOf
	d2 := [][]float64{{1, 2}, {3, 4}}
	x, _ := tensor.TensorOf(d2, nil)
	d2[0][0] = math.Inf(1)
	if v, _ := x.At(0, 0); v != 1 {
		r.fail("alias:TensorOf-data", fmt.Sprint(v))
	} else {
		r.ok("TensorOf data decoupled")
	}
}

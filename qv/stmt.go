package main

import (
	"sort"
	"os"
	"fmt"
	"go/ast"
	"go/parser"
	"go/token"
	"go/types"
	"strings"
)

// ---------------------------------------------------------------------------------------------
// Statements (path exploration with continuations)
// ---------------------------------------------------------------------------------------------

func (r *UnitRun) execStmts(st *State, ss []ast.Stmt, k func(*State)) {
	if st.dead {
		return
	}
	if len(ss) == 0 {
		k(st)
		return
	}
	r.execStmt(st, ss[0], func(s2 *State) { r.execStmts(s2, ss[1:], k) })
}

func (r *UnitRun) execBlock(st *State, b *ast.BlockStmt, k func(*State)) {
	saved := st.names
	st.names = cloneNames(saved)
	r.execStmts(st, b.List, func(s2 *State) {
		s2.names = restoreNames(saved, s2.names)
		k(s2)
	})
}

func cloneNames(m map[string]types.Object) map[string]types.Object {
	n := make(map[string]types.Object, len(m))
	for k, v := range m {
		n[k] = v
	}
	return n
}

// restoreNames keeps the outer bindings (inner declarations go out of scope).
func restoreNames(outer, inner map[string]types.Object) map[string]types.Object {
	return cloneNames(outer)
}

func (r *UnitRun) execStmt(st *State, s ast.Stmt, k func(*State)) {
	if st.dead {
		return
	}
	switch s := s.(type) {
	case *ast.EmptyStmt:
		k(st)
	case *ast.BlockStmt:
		r.execBlock(st, s, k)
	case *ast.ExprStmt:
		r.evalExpr(st, s.X)
		if !st.dead {
			k(st)
		}
	case *ast.DeclStmt:
		gd := s.Decl.(*ast.GenDecl)
		for _, sp := range gd.Specs {
			vs, ok := sp.(*ast.ValueSpec)
			if !ok {
				continue
			}
			for i, id := range vs.Names {
				obj := r.info.Defs[id]
				var v Val
				if i < len(vs.Values) {
					v = r.convertTo(st, r.evalExpr(st, vs.Values[i]), obj.Type())
				} else {
					v = r.zero(st, obj.Type())
				}
				if obj != nil {
					st.bind(obj, v)
				}
			}
		}
		k(st)
	case *ast.AssignStmt:
		r.execAssign(st, s)
		if !st.dead {
			k(st)
		}
	case *ast.IncDecStmt:
		loc := r.evalLoc(st, s.X)
		cur := loc.load(st)
		d := "1"
		if s.Tok == token.DEC {
			d = "(- 1)"
		}
		if n, ok := isIntLit(d); ok {
			_ = n
		}
		if s.Tok == token.INC {
			loc.store(st, Val{K: KInt, T: add(cur.T, "1"), Go: cur.Go})
		} else {
			loc.store(st, Val{K: KInt, T: sub(cur.T, "1"), Go: cur.Go})
		}
		k(st)
	case *ast.IfStmt:
		saved := st.names
		st.names = cloneNames(saved)
		cont := func(s2 *State) {
			s2.names = cloneNames(saved)
			k(s2)
		}
		if s.Init != nil {
			r.execStmt(st, s.Init, func(s2 *State) { r.execIf(s2, s, cont) })
		} else {
			r.execIf(st, s, cont)
		}
	case *ast.ReturnStmt:
		r.execReturn(st, s)
	case *ast.ForStmt:
		r.execFor(st, s, k)
	case *ast.RangeStmt:
		r.execRange(st, s, k)
	case *ast.BranchStmt:
		if s.Label != nil {
			panic(toolLimit("labelled branch"))
		}
		switch s.Tok {
		case token.BREAK:
			for i := len(st.loops) - 1; i >= 0; i-- {
				lc := st.loops[i]
				st.loops = st.loops[:i]
				lc.onBreak(st)
				return
			}
			panic(toolLimit("break outside loop"))
		case token.CONTINUE:
			for i := len(st.loops) - 1; i >= 0; i-- {
				lc := st.loops[i]
				if lc.isSwitch {
					continue
				}
				st.loops = st.loops[:i+1]
				lc.onContinue(st)
				return
			}
			panic(toolLimit("continue outside loop"))
		default:
			panic(toolLimit("branch " + s.Tok.String()))
		}
	case *ast.SwitchStmt:
		r.execSwitch(st, s, k)
	case *ast.TypeSwitchStmt:
		r.execTypeSwitch(st, s, k)
	default:
		panic(toolLimit(fmt.Sprintf("unsupported statement %T", s)))
	}
}

func (r *UnitRun) fork(st *State, cond string, label string) (*State, *State) {
	r.paths++
	if r.paths > r.maxPaths {
		panic(toolLimit("path limit exceeded"))
	}
	a := st.clone()
	a.assume(cond)
	a.branch = append(a.branch, cond)
	a.trace = append(a.trace, label+"=T")
	b := st
	b.assume(not(cond))
	b.branch = append(b.branch, not(cond))
	b.trace = append(b.trace, label+"=F")
	return a, b
}

func (r *UnitRun) execIf(st *State, s *ast.IfStmt, k func(*State)) {
	c := r.evalExpr(st, s.Cond)
	if st.dead {
		return
	}
	if c.T == "true" {
		r.execBlock(st, s.Body, k)
		return
	}
	if c.T == "false" {
		if s.Else != nil {
			r.execStmt(st, s.Else, k)
		} else {
			k(st)
		}
		return
	}
	a, b := r.fork(st, c.T, fmt.Sprintf("if@%d", r.prog.Fset.Position(s.Pos()).Line))
	r.execBlock(a, s.Body, k)
	if s.Else != nil {
		r.execStmt(b, s.Else, k)
	} else {
		k(b)
	}
}

func (r *UnitRun) execAssign(st *State, s *ast.AssignStmt) {
	// compound assignment
	if s.Tok != token.ASSIGN && s.Tok != token.DEFINE {
		loc := r.evalLoc(st, s.Lhs[0])
		cur := loc.load(st)
		rhs := r.evalExpr(st, s.Rhs[0])
		op := map[token.Token]token.Token{token.ADD_ASSIGN: token.ADD, token.SUB_ASSIGN: token.SUB, token.MUL_ASSIGN: token.MUL, token.QUO_ASSIGN: token.QUO, token.REM_ASSIGN: token.REM}[s.Tok]
		loc.store(st, r.arith(st, op, cur, rhs, s))
		return
	}
	var vals []Val
	if len(s.Rhs) == 1 && len(s.Lhs) > 1 {
		switch rhs := s.Rhs[0].(type) {
		case *ast.TypeAssertExpr:
			v, ok := r.evalTypeAssert(st, rhs, true)
			vals = []Val{v, boolV(ok)}
		case *ast.IndexExpr:
			// v, ok := m[k]
			m := r.evalExpr(st, rhs.X)
			kx := r.evalExpr(st, rhs.Index)
			mt := types.Unalias(r.typeOf(rhs.X)).Underlying().(*types.Map)
			vals = r.mapGet(st, m, kx, mt).Tup
		default:
			v := r.evalExpr(st, s.Rhs[0])
			if v.K != KTuple {
				panic(toolLimit("multi-assign from non-tuple"))
			}
			vals = v.Tup
		}
	} else {
		for _, e := range s.Rhs {
			vals = append(vals, r.evalExpr(st, e))
		}
	}
	if st.dead {
		return
	}
	// evaluate locations first (Go evaluates index operands on the left before assigning)
	locs := make([]Loc, len(s.Lhs))
	for i, l := range s.Lhs {
		if id, ok := l.(*ast.Ident); ok {
			if id.Name == "_" {
				continue
			}
			if s.Tok == token.DEFINE {
				if obj := r.info.Defs[id]; obj != nil {
					locs[i] = &varLoc{obj: obj}
					if fl, ok := s.Rhs[min(i, len(s.Rhs)-1)].(*ast.FuncLit); ok && len(s.Lhs) == len(s.Rhs) {
						r.varUnit[obj] = r.prog.ByLit[fl]
					}
					continue
				}
			}
			obj := r.info.ObjectOf(id)
			if len(s.Lhs) == len(s.Rhs) {
				if fl, ok := s.Rhs[i].(*ast.FuncLit); ok {
					r.varUnit[obj] = r.prog.ByLit[fl]
				}
			}
			locs[i] = &varLoc{obj: obj}
			continue
		}
		locs[i] = r.evalLoc(st, l)
	}
	for i, loc := range locs {
		if loc == nil {
			continue
		}
		lt := r.typeOf(s.Lhs[i])
		loc.store(st, r.convertTo(st, vals[i], lt))
	}
}

func (r *UnitRun) resultNames() []resultVar {
	if r.results != nil {
		return r.results
	}
	sig := r.unit.Sig
	for i := 0; i < sig.Results().Len(); i++ {
		v := sig.Results().At(i)
		rv := resultVar{name: v.Name(), obj: v, typ: v.Type()}
		if rv.name == "" || rv.name == "_" {
			rv.name = fmt.Sprintf("res%d", i)
			rv.obj = nil
		}
		r.results = append(r.results, rv)
	}
	if r.results == nil {
		r.results = []resultVar{}
	}
	return r.results
}

func (r *UnitRun) execReturn(st *State, s *ast.ReturnStmt) {
	res := r.resultNames()
	var vals []Val
	if len(s.Results) == 0 {
		for _, rv := range res {
			if rv.obj == nil {
				panic(toolLimit("bare return with unnamed results"))
			}
			vals = append(vals, st.vars[rv.obj])
		}
	} else if len(s.Results) == 1 && len(res) > 1 {
		v := r.evalExpr(st, s.Results[0])
		if v.K != KTuple {
			panic(toolLimit("return of non-tuple"))
		}
		vals = v.Tup
	} else {
		for i, e := range s.Results {
			vals = append(vals, r.convertTo(st, r.evalExpr(st, e), res[i].typ))
		}
	}
	if st.dead {
		return
	}
	if r.retHook != nil {
		r.retHook(st, vals)
		return
	}
	r.finish(st, vals, s)
}

// finish checks the postconditions on a return path.
func (r *UnitRun) finish(st *State, vals []Val, n *ast.ReturnStmt) {
	witness := map[string]Val{}
	if len(r.unit.Witness) > 0 {
		for _, name := range sortedKeys(r.unit.Witness) {
			func() {
				defer func() { recover() }() // the local may not exist on this return path: keep the existential
				e, err := parser.ParseExpr(r.unit.Witness[name])
				if err != nil {
					return
				}
				wenv := &SpecEnv{run: r, st: st, old: r.entry, bound: map[string]Val{}}
				v := wenv.eval(e)
				if v.K == KRef && v.Sort == "T" {
					witness[name] = v
				}
			}()
		}
	}
	// intermediate facts marked @early are established before publication (the representation invariant of a tensor
	// built here may need them)
	if len(r.unit.Have) > 0 && !r.errReturnedVals(vals) {
		r.haveClauses(st, vals, n, true)
	}
	// publication of the tensors allocated in this call (not on error returns)
	if !r.errReturnedVals(vals) {
		r.publish(st, n)
	}
	res := r.resultNames()
	bound := map[string]Val{}
	// in postconditions a parameter name denotes the argument value (parameters are local variables in Go and may be
	// reassigned by the body)
	if r.unit.Recv != nil {
		if v, ok := r.entry.vars[r.unit.Recv]; ok {
			bound[r.unit.Recv.Name()] = v
		}
	}
	for i := 0; i < r.unit.Sig.Params().Len(); i++ {
		pv := r.unit.Sig.Params().At(i)
		if v, ok := r.entry.vars[pv]; ok && pv.Name() != "" && pv.Name() != "_" {
			bound[pv.Name()] = v
		}
	}
	for i, rv := range res {
		v := r.convertTo(st, vals[i], rv.typ)
		bound[rv.name] = v
		bound[fmt.Sprintf("res%d", i)] = v
	}
	if len(res) > 0 {
		bound["res"] = bound[res[0].name]
	}
	// intermediate facts ("have"): stated over the locals as they are at this return, proved in order, then assumed
	if len(r.unit.Have) > 0 && !r.errReturnedVals(vals) {
		r.haveClauses(st, vals, n, false)
	}
	for _, rv := range res {
		if rv.obj != nil {
			st.bind(rv.obj, bound[rv.name])
		}
	}
	retSite := "end"
	if n != nil {
		retSite = fmt.Sprintf("ret%d", r.retOrd[n])
	}
	var node ast.Node
	if n != nil {
		node = n
	}
	// (R) returned slices are fresh, returned references are fresh when declared so
	for i, rv := range res {
		v := bound[rv.name]
		if v.K == KSlice && r.unit.Returns != "alias" && r.unit.Returns != "lib" {
			ok := v.S.Obj != nil && !v.S.Obj.param && v.S.Obj.own == OwnFresh
			if v.S.Obj == nil && v.S.Len == "0" {
				ok = true
			}
			r.obligeStatic(st, "own", fmt.Sprintf("%s.result%d", retSite, i), ok, node, "slice returned to the caller is freshly allocated")
		}
		if v.K == KFunc && r.unit.Returns == "fresh" {
			r.obligeStatic(st, "own", fmt.Sprintf("%s.fresh%d", retSite, i), v.Fn.term != "" && st.fresh(v.Fn.term) || v.Fn.term == "" && v.Fn.unit != nil && v.Fn.unit.Lit != nil, node, "returned function value is a closure created in this call")
		}
		if v.K == KRef && r.unit.Returns == "fresh" && isTensorType(rv.typ) {
			// only checked when no error is returned alongside
			r.obligeStatic(st, "own", fmt.Sprintf("%s.fresh%d", retSite, i), st.fresh(v.T) || r.errReturned(bound), node, "returned object is allocated in this call")
		}
	}
	env := &SpecEnv{run: r, st: st, old: r.entry, bound: bound}
	env.witness = witness
	for i, c := range r.unit.Ensures {
		goal := r.specBool(env, c, "ensures of "+r.unit.Name)
		ost := st
		if len(c.Uses) > 0 {
			ost = st.clone()
			r.assumeNamed(ost, c.Uses)
		}
		r.oblige(ost, "post", fmt.Sprintf("%d", i), goal, node, "postcondition: "+c.Text+" (at "+retSite+")", c.Tags)
	}
	if r.unit.Implements != "" {
		au := r.prog.Units[r.unit.Implements]
		b2 := map[string]Val{"self": st.ghost["self"]}
		_, _, ares := au.paramNames()
		for i, rp := range ares {
			if i < len(res) {
				b2[rp.Name] = bound[res[i].name]
			}
		}
		envI := &SpecEnv{run: r, st: st, old: r.entry, bound: b2}
		for i, c := range au.Ensures {
			if c.Ghost {
				continue
			}
			goal := r.specBool(envI, c, "ensures of "+au.Name)
			r.oblige(st, "post", fmt.Sprintf("%s.%d", au.Name, i), goal, node, "function-type postcondition "+au.Name+": "+c.Text+" (at "+retSite+")", c.Tags)
		}
		// the ghost step of the protocol: advance the ghosts it modifies, assume its ghost postconditions, then the closure's
		// invariant must hold again
		for _, m := range au.Modifies {
			if strings.HasPrefix(m, "genIdx(") {
				f := r.genIdxTarget(st, m, b2, "ghost step of "+au.Name)
				cur := st.ghost["genIdx"]
				cur.T = sx("store", cur.T, f, r.fresh("step_genIdx", idxSort))
				st.ghost["genIdx"] = cur
			} else if g, ok := st.ghost[m]; ok && g.K == KRef {
				st.ghost[m] = Val{K: KRef, T: r.fresh("step_"+m, g.Sort), Sort: g.Sort, Go: g.Go}
			}
		}
		for _, c := range au.Ensures {
			if c.Ghost {
				st.assume(r.specBool(envI, c, "ghost step of "+au.Name))
			}
		}
		for i, c := range r.unit.Invariant {
			goal := r.specBool(envI, c, "closure invariant of "+r.unit.Name)
			r.oblige(st, "closure-inv", fmt.Sprintf("%d", i), goal, node, "closure invariant re-established: "+c.Text+" (at "+retSite+")", c.Tags)
		}
	}
	// vacuity canary: the path to this return must be satisfiable
	r.oblige(st, "canary", retSite, "false", node, "path to this return is reachable (must NOT be provable)", nil)
}

func (r *UnitRun) errReturnedVals(vals []Val) bool {
	for _, v := range vals {
		if v.K == KErr && v.T == "false" {
			return true
		}
	}
	return false
}

func (r *UnitRun) errReturned(bound map[string]Val) bool {
	for _, v := range bound {
		if v.K == KErr && v.T != "true" {
			return true // an error (or a possibly non-nil error) is returned alongside: the result is not used
		}
	}
	return false
}

// ---------------------------------------------------------------------------------------------
// Loops
// ---------------------------------------------------------------------------------------------

type modSet struct {
	vars   map[types.Object]bool
	bases  []ast.Expr // expressions whose slice object is written
	fields map[string]bool
	units  []*Unit
	ptrs   []ast.Expr
}

func (r *UnitRun) loopModSet(body ast.Node, extra ...ast.Node) *modSet {
	m := &modSet{vars: map[types.Object]bool{}, fields: map[string]bool{}}
	var lhs func(e ast.Expr)
	lhs = func(e ast.Expr) {
		switch e := e.(type) {
		case *ast.ParenExpr:
			lhs(e.X)
		case *ast.Ident:
			if obj := r.info.ObjectOf(e); obj != nil {
				m.vars[obj] = true
			}
		case *ast.IndexExpr:
			m.bases = append(m.bases, e.X)
		case *ast.SelectorExpr:
			if sel, ok := r.info.Selections[e]; ok && sel.Kind() == types.FieldVal {
				bt := r.typeOf(e.X)
				if _, isPtr := types.Unalias(bt).Underlying().(*types.Pointer); isPtr {
					m.fields[typeName(bt)+"."+e.Sel.Name] = true
				} else {
					lhs(e.X)
				}
			}
		case *ast.StarExpr:
			m.ptrs = append(m.ptrs, e.X)
		}
	}
	visit := func(n ast.Node) bool {
		switch n := n.(type) {
		case *ast.FuncLit:
			return false
		case *ast.AssignStmt:
			for _, l := range n.Lhs {
				lhs(l)
			}
		case *ast.IncDecStmt:
			lhs(n.X)
		case *ast.RangeStmt:
			if n.Key != nil {
				lhs(n.Key)
			}
			if n.Value != nil {
				lhs(n.Value)
			}
		case *ast.CallExpr:
			// &x arguments and callee frames
			for _, a := range n.Args {
				if u, ok := a.(*ast.UnaryExpr); ok && u.Op == token.AND {
					lhs(u.X)
				}
			}
			if id, ok := n.Fun.(*ast.Ident); ok {
				if b, ok := r.info.ObjectOf(id).(*types.Builtin); ok && b.Name() == "copy" {
					m.bases = append(m.bases, n.Args[0])
				}
			}
			if u := r.staticCallee(n); u != nil {
				m.units = append(m.units, u)
			}
		}
		return true
	}
	ast.Inspect(body, visit)
	for _, x := range extra {
		if x != nil {
			ast.Inspect(x, visit)
		}
	}
	return m
}

func (r *UnitRun) staticCallee(n *ast.CallExpr) *Unit {
	switch f := n.Fun.(type) {
	case *ast.Ident:
		obj := r.info.ObjectOf(f)
		if fn, ok := obj.(*types.Func); ok {
			return r.prog.ByObj[fn]
		}
		if v, ok := obj.(*types.Var); ok {
			if u, ok := r.varUnit[v]; ok {
				return u
			}
			if u := r.lookupVarUnit(v); u != nil {
				return u
			}
			if u, ok := r.prog.Units[r.funcTypeUnitName(v.Type())]; ok {
				return u
			}
		}
	case *ast.SelectorExpr:
		if s, ok := r.info.Selections[f]; ok && s.Kind() == types.MethodVal {
			fn := s.Obj().(*types.Func)
			if u, ok := r.prog.ByObj[fn]; ok {
				return u
			}
			if isTensorType(types.Unalias(s.Recv())) {
				return r.prog.Units["cputensor.CPUTensor."+fn.Name()]
			}
		} else if fn, ok := r.info.ObjectOf(f.Sel).(*types.Func); ok {
			return r.prog.ByObj[fn]
		}
	}
	return nil
}

func (r *UnitRun) havocLoop(st *State, m *modSet, extraNames []string, n ast.Node) (written map[*Obj]bool) {
	written = map[*Obj]bool{}
	before := make(map[*Obj]string, len(st.arrs))
	for o, a := range st.arrs {
		before[o] = a
	}
	defer func() {
		// the objects whose elements the loop may write: exactly those whose contents were made unknown here
		for o, a := range st.arrs {
			if b, ok := before[o]; ok && b != a {
				written[o] = true
			}
		}
	}()
	for obj := range m.vars {
		cur, ok := st.vars[obj]
		if !ok {
			continue // declared inside the loop
		}
		if cur.K == KFunc {
			continue
		}
		nv := r.havocVal(st, cur, obj.Type(), obj.Name())
		st.vars[obj] = nv
	}
	for _, b := range m.bases {
		func() {
			defer func() { recover() }()
			saved := len(r.obls)
			v := r.evalExpr(st.clone(), b)
			r.obls = r.obls[:saved]
			if v.K == KSlice && v.S.Obj != nil {
				st.arrs[v.S.Obj] = r.fresh("loop_"+sanitize(v.S.Obj.name), fmt.Sprintf("(Array Int %s)", v.S.Obj.elem))
			}
		}()
	}
	for f := range m.fields {
		if fi, ok := r.prog.World.fields[f]; ok {
			r.heapTerm(st, fi)
			st.heap[f] = r.fresh("H_"+sanitize(f), fmt.Sprintf("(Array %s %s)", fi.refSort, fi.valSort))
		}
	}
	for _, u := range m.units {
		for _, mod := range u.Modifies {
			if strings.HasPrefix(mod, "genIdx(") {
				// generator indices: the whole map is unknown at the loop head (the invariant restates what is needed)
				g := st.ghost["genIdx"]
				st.ghost["genIdx"] = Val{K: KRef, T: r.fresh("loop_genIdx", g.Sort), Sort: g.Sort}
			} else if strings.Contains(mod, ".") && !strings.HasPrefix(mod, "*") {
				fi, ok := r.prog.World.fields[mod]
				if !ok {
					parts := strings.SplitN(mod, ".", 2)
					if sty := r.structByName(parts[0]); sty != nil {
						fi = r.prog.World.field(sty, parts[1])
						ok = true
					} else if sty := u.paramStruct(parts[0]); sty != nil {
						// "<param>.<field>": inside a loop the whole field map is unknown at the head
						fi = r.prog.World.field(sty, parts[1])
						ok = true
					}
				}
				if ok {
					r.heapTerm(st, fi)
					st.heap[fi.name] = r.fresh("H_"+sanitize(fi.name), fmt.Sprintf("(Array %s %s)", fi.refSort, fi.valSort))
				}
			} else if !strings.HasPrefix(mod, "*") {
				// captured variable / ghost modified by a closure call
				if obj, ok := st.names[mod]; ok {
					if cur, ok := st.vars[obj]; ok {
						if cur.K == KSlice && u.rebinds(mod) {
							st.vars[obj] = r.havocVal(st, cur, obj.Type(), mod)
						} else if cur.K == KSlice && cur.S.Obj != nil {
							st.arrs[cur.S.Obj] = r.fresh("loop_"+sanitize(mod), fmt.Sprintf("(Array Int %s)", cur.S.Obj.elem))
						} else if cur.K != KFunc && cur.K != KSlice {
							st.vars[obj] = r.havocVal(st, cur, obj.Type(), mod)
						}
					}
				} else if g, ok := st.ghost[mod]; ok {
					st.ghost[mod] = r.havocVal(st, g, g.Go, mod)
				}
			}
		}
	}
	for _, name := range extraNames {
		if g, ok := st.ghost[name]; ok {
			st.ghost[name] = r.havocVal(st, g, g.Go, name)
		}
	}
	return written
}

func (r *UnitRun) havocVal(st *State, cur Val, t types.Type, base string) Val {
	switch cur.K {
	case KInt:
		return Val{K: KInt, T: r.fresh("loop_"+base, "Int"), Go: cur.Go}
	case KBool:
		return Val{K: KBool, T: r.fresh("loop_"+base, "Bool"), Go: cur.Go}
	case KReal:
		return Val{K: KReal, T: r.fresh("loop_"+base, "Real"), Go: cur.Go}
	case KErr:
		return Val{K: KErr, T: r.fresh("loop_"+base, "Bool"), Go: cur.Go}
	case KRef:
		return Val{K: KRef, T: r.fresh("loop_"+base, cur.Sort), Sort: cur.Sort, Go: cur.Go}
	case KStruct:
		f := map[string]Val{}
		for k, x := range cur.F {
			f[k] = r.havocVal(st, x, x.Go, base+"_"+k)
		}
		return Val{K: KStruct, F: f, Go: cur.Go}
	case KSlice:
		// the variable may be re-bound to another slice inside the loop: unknown immutable value of unknown length
		es := cur.S.ESrt
		o := r.newObj("loop_"+base, es, OwnFresh)
		st.arrs[o] = r.fresh("loop_"+base+"_arr", fmt.Sprintf("(Array Int %s)", es))
		ln := r.fresh("loop_"+base+"_len", "Int")
		st.assume(sx(">=", ln, "0"))
		return Val{K: KSlice, S: &SliceVal{Obj: o, Off: "0", Len: ln, Elem: cur.S.Elem, ESrt: es}, Go: cur.Go}
	}
	if t != nil {
		return r.symbolic(st, t, "loop_"+base, OwnFresh)
	}
	panic(toolLimit("cannot havoc " + cur.String()))
}

func (r *UnitRun) loopSpec(s ast.Stmt) (*LoopSpec, int) {
	n := r.loopOrd[s]
	ls := r.unit.Loops[n]
	if ls == nil {
		ls = &LoopSpec{}
	}
	return ls, n
}

func (r *UnitRun) checkInvs(st *State, ls *LoopSpec, n int, phase string, node ast.Node, auto []string) {
	env := &SpecEnv{run: r, st: st, old: r.entry, pre: st.pre[n], bound: map[string]Val{}}
	for i, a := range auto {
		r.oblige(st, "inv", fmt.Sprintf("loop%d.auto%d.%s", n, i, phase), a, node, "automatic range-loop invariant ("+phase+")", nil)
	}
	for i, c := range ls.Inv {
		goal := r.specBool(env, c, fmt.Sprintf("loop %d invariant", n))
		r.oblige(st, "inv", fmt.Sprintf("loop%d.%d.%s", n, i, phase), goal, node, "loop invariant ("+phase+"): "+c.Text, c.Tags)
	}
}

func (r *UnitRun) assumeInvs(st *State, ls *LoopSpec, n int) {
	env := &SpecEnv{run: r, st: st, old: r.entry, pre: st.pre[n], bound: map[string]Val{}}
	for _, c := range ls.Inv {
		st.assume(r.specBool(env, c, fmt.Sprintf("loop %d invariant", n)))
	}
}

func (r *UnitRun) loopHints(st *State, ls *LoopSpec, n int, node ast.Node) {
	env := &SpecEnv{run: r, st: st, old: r.entry, pre: st.pre[n], bound: map[string]Val{}}
	for i, c := range ls.Hint {
		goal := r.specBool(env, c, fmt.Sprintf("loop %d hint", n))
		r.oblige(st, "hint", fmt.Sprintf("loop%d.%d", n, i), goal, node, "loop hint: "+c.Text, nil)
		st.assume(goal)
	}
}

func (r *UnitRun) variant(st *State, ls *LoopSpec, n int) []string {
	env := &SpecEnv{run: r, st: st, old: r.entry, pre: st.pre[n], bound: map[string]Val{}}
	var out []string
	for _, c := range ls.Decr {
		func() {
			defer func() {
				if x := recover(); x != nil {
					if se, ok := x.(specError); ok {
						panic(toolLimit(fmt.Sprintf("loop %d decreases (%s): %s", n, c.Where, string(se))))
					}
					panic(x)
				}
			}()
			out = append(out, env.numOf(c.Expr).T)
		}()
	}
	return out
}

func (r *UnitRun) execFor(st *State, s *ast.ForStmt, k func(*State)) {
	ls, n := r.loopSpec(s)
	saved := st.names
	st.names = cloneNames(saved)
	after := func(s2 *State) {
		s2.names = cloneNames(saved)
		k(s2)
	}
	start := func(st *State) {
		st.snapshotPre(n)
		r.checkInvs(st, ls, n, "init", s, nil)
		ms := r.loopModSet(s.Body, s.Post, s.Cond)
		written := r.havocLoop(st, ms, ls.Mod, s)
		headFrozen := make(map[*Obj]bool, len(st.frozen))
		for o, f := range st.frozen {
			headFrozen[o] = f
		}
		r.assumeInvs(st, ls, n)
		depth := len(st.loops)
		var cond string = "true"
		if s.Cond != nil {
			cond = r.evalExpr(st, s.Cond).T
		}
		body, exit := r.fork(st, cond, fmt.Sprintf("loop%d", n))
		// exit path
		exit.loops = exit.loops[:depth]
		after(exit)
		// body path
		r.loopHints(body, ls, n, s)
		v0 := r.variant(body, ls, n)
		if len(ls.Decr) == 0 {
			r.limit("loop %d of %s has no decreases clause: termination not proved", n, r.unit.Name)
		}
		endIter := func(s2 *State) {
			s2.loops = s2.loops[:depth]
			fin := func(s3 *State) {
				r.checkPublishedInLoop(s3, written, headFrozen, n, s)
				r.checkInvs(s3, ls, n, "step", s, nil)
				v1 := r.variant(s3, ls, n)
				for i := range v1 {
					r.oblige(s3, "variant", fmt.Sprintf("loop%d.%d", n, i), and(sx(">=", v0[i], "0"), sx("<", v1[i], v0[i])), s, "loop variant is non-negative and decreases: "+ls.Decr[i].Text, nil)
				}
			}
			if s.Post != nil {
				r.execStmt(s2, s.Post, fin)
			} else {
				fin(s2)
			}
		}
		body.loops = append(body.loops[:depth:depth], &loopCtx{
			onBreak:    func(s2 *State) { s2.loops = s2.loops[:depth]; after(s2) },
			onContinue: endIter,
		})
		r.execBlock(body, s.Body, endIter)
	}
	if s.Init != nil {
		r.execStmt(st, s.Init, start)
	} else {
		start(st)
	}
}

func (r *UnitRun) execRange(st *State, s *ast.RangeStmt, k func(*State)) {
	ls, n := r.loopSpec(s)
	x := r.evalExpr(st, s.X)
	if x.K == KInt && s.Value == nil {
		// range over an integer (Go 1.22): n iterations for n > 0, none otherwise; no element variable
		x = Val{K: KSlice, S: &SliceVal{Arr: "rangeInt", Off: "0", Len: fmt.Sprintf("(ite (>= %s 0) %s 0)", x.T, x.T), ESrt: "Int"}, Go: x.Go}
	}
	if x.K != KSlice {
		panic(toolLimit("range over non-slice"))
	}
	saved := st.names
	st.names = cloneNames(saved)
	after := func(s2 *State) {
		s2.names = cloneNames(saved)
		k(s2)
	}
	// the ranged slice is available to invariants as _r<N>
	st.ghost[fmt.Sprintf("_r%d", n)] = x
	// the counter
	ghostName := fmt.Sprintf("_i%d", n)
	var keyObj types.Object
	if id, ok := s.Key.(*ast.Ident); ok && id.Name != "_" {
		if s.Tok == token.DEFINE {
			keyObj = r.info.Defs[id]
		} else {
			keyObj = r.info.ObjectOf(id)
		}
	}
	setIdx := func(st *State, t string) {
		st.ghost[ghostName] = Val{K: KInt, T: t, Go: types.Typ[types.Int]}
		if keyObj != nil {
			st.bind(keyObj, Val{K: KInt, T: t, Go: types.Typ[types.Int]})
		}
	}
	idx := func(st *State) string { return st.ghost[ghostName].T }
	setIdx(st, "0")
	ms := r.loopModSet(s.Body)
	if keyObj != nil && ms.vars[keyObj] {
		panic(toolLimit("range loop body assigns its key variable"))
	}
	// the ranged slice is evaluated once: snapshot of (object, off, len); element reads see later writes (Go semantics)
	xs := x.S
	auto := func(st *State) []string {
		return []string{and(sx("<=", "0", idx(st)), sx("<=", idx(st), xs.Len))}
	}
	st.snapshotPre(n)
	r.checkInvs(st, ls, n, "init", s, auto(st))
	written := r.havocLoop(st, ms, ls.Mod, s)
	headFrozen := make(map[*Obj]bool, len(st.frozen))
	for o, f := range st.frozen {
		headFrozen[o] = f
	}
	setIdx(st, r.fresh("loop_"+ghostName, "Int"))
	st.assume(auto(st)[0])
	r.assumeInvs(st, ls, n)
	depth := len(st.loops)
	body, exit := r.fork(st, sx("<", idx(st), xs.Len), fmt.Sprintf("loop%d", n))
	exit.loops = exit.loops[:depth]
	exit.assume(eq(idx(exit), xs.Len))
	after(exit)
	// body
	if id, ok := s.Value.(*ast.Ident); ok && id.Name != "_" {
		var vobj types.Object
		if s.Tok == token.DEFINE {
			vobj = r.info.Defs[id]
		} else {
			vobj = r.info.ObjectOf(id)
		}
		body.bind(vobj, r.sliceElem(body, xs, idx(body)))
	}
	r.loopHints(body, ls, n, s)
	i0 := idx(body)
	endIter := func(s2 *State) {
		s2.loops = s2.loops[:depth]
		setIdx(s2, add(i0, "1"))
		r.checkPublishedInLoop(s2, written, headFrozen, n, s)
		r.checkInvs(s2, ls, n, "step", s, auto(s2))
	}
	body.loops = append(body.loops[:depth:depth], &loopCtx{
		onBreak:    func(s2 *State) { s2.loops = s2.loops[:depth]; after(s2) },
		onContinue: endIter,
	})
	r.execBlock(body, s.Body, endIter)
}

// ---------------------------------------------------------------------------------------------
// switch
// ---------------------------------------------------------------------------------------------

func (r *UnitRun) execSwitch(st *State, s *ast.SwitchStmt, k func(*State)) {
	saved := st.names
	st.names = cloneNames(saved)
	after := func(s2 *State) {
		s2.names = cloneNames(saved)
		k(s2)
	}
	run := func(st *State) {
		var tag *Val
		if s.Tag != nil {
			v := r.evalExpr(st, s.Tag)
			tag = &v
		}
		depth := len(st.loops)
		brk := &loopCtx{isSwitch: true, onBreak: func(s2 *State) { s2.loops = s2.loops[:depth]; after(s2) }}
		var deflt *ast.CaseClause
		cur := st
		for _, c := range s.Body.List {
			cc := c.(*ast.CaseClause)
			if cc.List == nil {
				deflt = cc
				continue
			}
			var conds []string
			for _, e := range cc.List {
				v := r.evalExpr(cur, e)
				if tag != nil {
					conds = append(conds, specEq(r.prog.World, *tag, v))
				} else {
					conds = append(conds, v.T)
				}
			}
			hit, miss := r.fork(cur, or(conds...), fmt.Sprintf("case@%d", r.prog.Fset.Position(cc.Pos()).Line))
			hit.loops = append(hit.loops[:depth:depth], brk)
			r.execStmts(hit, cc.Body, func(s2 *State) { s2.loops = s2.loops[:depth]; after(s2) })
			cur = miss
		}
		if deflt != nil {
			cur.loops = append(cur.loops[:depth:depth], brk)
			r.execStmts(cur, deflt.Body, func(s2 *State) { s2.loops = s2.loops[:depth]; after(s2) })
		} else {
			after(cur)
		}
	}
	if s.Init != nil {
		r.execStmt(st, s.Init, run)
	} else {
		run(st)
	}
}

func (r *UnitRun) execTypeSwitch(st *State, s *ast.TypeSwitchStmt, k func(*State)) {
	saved := st.names
	st.names = cloneNames(saved)
	after := func(s2 *State) {
		s2.names = cloneNames(saved)
		k(s2)
	}
	var x ast.Expr
	var bindName *ast.Ident
	switch a := s.Assign.(type) {
	case *ast.ExprStmt:
		x = a.X.(*ast.TypeAssertExpr).X
	case *ast.AssignStmt:
		x = a.Rhs[0].(*ast.TypeAssertExpr).X
		bindName = a.Lhs[0].(*ast.Ident)
	}
	v := r.evalExpr(st, x)
	depth := len(st.loops)
	brk := &loopCtx{isSwitch: true, onBreak: func(s2 *State) { s2.loops = s2.loops[:depth]; after(s2) }}
	var deflt *ast.CaseClause
	cur := st
	for _, c := range s.Body.List {
		cc := c.(*ast.CaseClause)
		if cc.List == nil {
			deflt = cc
			continue
		}
		var conds []string
		var bound Val
		for _, te := range cc.List {
			cond, bv := r.typeCaseCond(cur, v, te)
			conds = append(conds, cond)
			bound = bv
		}
		hit, miss := r.fork(cur, or(conds...), fmt.Sprintf("tcase@%d", r.prog.Fset.Position(cc.Pos()).Line))
		if bindName != nil && len(cc.List) == 1 {
			if obj := r.info.Implicits[cc]; obj != nil {
				hit.bind(obj, r.lenFact(hit, bound)) // a slice held by the interface value has a non-negative length
			}
		}
		hit.loops = append(hit.loops[:depth:depth], brk)
		r.execStmts(hit, cc.Body, func(s2 *State) { s2.loops = s2.loops[:depth]; after(s2) })
		cur = miss
	}
	if deflt != nil {
		if bindName != nil {
			if obj := r.info.Implicits[deflt]; obj != nil {
				cur.bind(obj, v)
			}
		}
		cur.loops = append(cur.loops[:depth:depth], brk)
		r.execStmts(cur, deflt.Body, func(s2 *State) { s2.loops = s2.loops[:depth]; after(s2) })
	} else {
		after(cur)
	}
}

func (r *UnitRun) typeCaseCond(st *State, v Val, te ast.Expr) (string, Val) {
	if id, ok := te.(*ast.Ident); ok && id.Name == "nil" {
		switch v.K {
		case KRef:
			if v.Sort == "Data" {
				r.needData()
				return eq(v.T, "nilData"), v
			}
			return eq(v.T, r.prog.World.nilOf(v.Sort)), v
		}
		panic(toolLimit("type switch nil case on " + v.String()))
	}
	t := r.typeOf(te)
	if v.K == KRef && v.Sort == "T" && isTensorType(t) {
		r.needIsCPU()
		return and(not(eq(v.T, "nilT")), sx("isCPU", v.T)), Val{K: KRef, T: v.T, Sort: "T", Go: t}
	}
	if v.K == KRef && v.Sort == "Data" {
		w := r.prog.World
		var src string
		tu := types.Unalias(t)
		switch u := tu.Underlying().(type) {
		case *types.Basic:
			if u.Info()&types.IsFloat != 0 {
				src = "Real"
			}
		case *types.Slice, *types.Pointer:
			src = w.sortOf(tu)
		}
		if src == "" {
			panic(toolLimit("type switch case " + t.String()))
		}
		fn := r.boxFn(src, "Data")
		return sx("is"+fn, v.T), r.fromTerm(sx("un"+fn, v.T), t)
	}
	panic(toolLimit("type switch on " + v.String()))
}

// publish: a CPUTensor allocated in this call becomes an abstract tensor when the call returns. Its shape and element
// functions are *defined* by its fields at that moment (assumed), and the representation invariant that later calls
// assume for every pre-existing tensor (axioms dimsLink / dataLink) is an obligation here.
var publishAssume, publishOblige ast.Expr

func (r *UnitRun) publish(st *State, n *ast.ReturnStmt) {
	if publishAssume == nil {
		publishAssume, _ = parser.ParseExpr(`rank(o) == len(o.dims) && forall(k, 0, len(o.dims), dim(o, k) == o.dims[k]) && nelems(o) == prod(o.dims, 0, len(o.dims)) && forallJ(J, el(o, J) == leafv(o.data, J, 0))`)
		publishOblige, _ = parser.ParseExpr(`forall(k, 0, len(o.dims), o.dims[k] >= 1) && WF(o.data, arrOf(o.dims), 0, len(o.dims))`)
	}
	var node ast.Node
	if n != nil {
		node = n
	}
	for _, key := range sortedKeys(st.ghost) {
		if !strings.HasPrefix(key, "alloc:") {
			continue
		}
		o := st.ghost[key]
		if o.Sort != "T" {
			continue
		}
		env := &SpecEnv{run: r, st: st, old: r.entry, bound: map[string]Val{"o": o}}
		func() {
			defer func() {
				if x := recover(); x != nil {
					if se, ok := x.(specError); ok {
						panic(toolLimit("publication of " + o.T + ": " + string(se)))
					}
					panic(x)
				}
			}()
			goal := env.boolOf(publishOblige)
			r.oblige(st, "repinv", sanitize(strings.SplitN(o.T, "!", 2)[0]), goal, node, "representation invariant of the tensor allocated here: positive dims, data well-formed for dims", nil)
			st.assume(env.boolOf(publishAssume))
			st.assume(sx("published", o.T))
			delete(st.ghost, key)
		}()
	}
}

// haveClauses proves and then assumes the unit's intermediate facts (the @early ones before publication, the others
// after it). The returned values are visible as res0, res1, ...; locals keep their own values.
func (r *UnitRun) haveClauses(st *State, vals []Val, n *ast.ReturnStmt, early bool) {
	res := r.resultNames()
	var node ast.Node
	if n != nil {
		node = n
	}
	for i, c := range r.unit.Have {
		if c.Early != early {
			continue
		}
		func() {
			defer func() {
				if x := recover(); x != nil {
					if tl, ok := x.(toolLimit); ok {
						if os.Getenv("QV_DEBUG") != "" {
							fmt.Fprintf(os.Stderr, "have %d of %s skipped: %s\n", i, r.unit.Name, string(tl))
						}
						if r.haveSkipped == nil {
							r.haveSkipped = map[int]string{}
						}
						r.haveSkipped[i] = string(tl)
						return // a local is not defined on this path
					}
					panic(x)
				}
			}()
			henv := &SpecEnv{run: r, st: st, old: r.entry, bound: map[string]Val{}}
			for k, rv := range res {
				if k < len(vals) {
					henv.bound[fmt.Sprintf("res%d", k)] = r.convertTo(st, vals[k], rv.typ)
				}
			}
			if sv, ok := st.ghost["self"]; ok {
				henv.bound["self"] = sv
			}
			goal := r.specBool(henv, c, "have of "+r.unit.Name)
			ost := st
			if len(c.Uses) > 0 {
				ost = st.clone()
				r.assumeNamed(ost, c.Uses)
			}
			r.oblige(ost, "have", fmt.Sprintf("%d", i), goal, node, "intermediate fact: "+c.Text, c.Tags)
			st.assume(goal)
			if r.haveDone == nil {
				r.haveDone = map[int]bool{}
			}
			r.haveDone[i] = true
		}()
	}
}

// checkPublishedInLoop: the body of a loop is verified from an arbitrary iteration's state, in which the set of published
// (frozen) slices is the one at the loop head. A slice that exists before the loop, is written by the loop and is
// published inside the body (stored as a value into an interface, another slice or a tensor) would be written again by
// the next iteration - visible through the stored value, which the value model does not track: that is refused.
func (r *UnitRun) checkPublishedInLoop(st *State, written, headFrozen map[*Obj]bool, n int, node ast.Node) {
	var names []string
	for o, f := range st.frozen {
		if f && !headFrozen[o] && written[o] {
			names = append(names, o.name)
		}
	}
	sort.Strings(names)
	for _, nm := range names {
		r.obligeStatic(st, "frame", fmt.Sprintf("loop%d.published.%s", n, sanitize(nm)), false, node,
			"slice "+nm+" exists before the loop, is written by the loop and is published (stored as a value) inside it: a later iteration would write through the stored value")
	}
}

package main

import (
	"flag"
	"fmt"
	"os"
	"runtime"
	"sort"
	"strings"
	"sync"
	"time"
)

// qv: verification-condition generator for the Go subset used by sahandsafizadeh/qeep.
//
//   qv units    [-repo /repo] pattern...          verify the named units, print a per-obligation table
//   qv check    -prop C09 [-tier quick|thorough]  property check (see check.go)

func main() {
	if len(os.Args) < 2 {
		fmt.Fprintln(os.Stderr, "usage: qv units|check|list ...")
		os.Exit(2)
	}
	switch os.Args[1] {
	case "units":
		cmdUnits(os.Args[2:])
	case "check":
		cmdCheck(os.Args[2:])
	case "list":
		cmdList(os.Args[2:])
	default:
		fmt.Fprintln(os.Stderr, "unknown command", os.Args[1])
		os.Exit(2)
	}
}

func envBase() []string { return os.Environ() }

type OblOutcome struct {
	O   *Obligation
	Res *SolveResult
}

// dischargeAll runs the solver over obligations with a worker pool.
func dischargeAll(s *Solver, obls []*Obligation, workers int) []OblOutcome {
	out := make([]OblOutcome, len(obls))
	var wg sync.WaitGroup
	ch := make(chan int)
	for w := 0; w < workers; w++ {
		wg.Add(1)
		go func() {
			defer wg.Done()
			for i := range ch {
				o := obls[i]
				if o.Static != "" {
					st := "unsat"
					if o.Static == "fail" {
						st = "sat"
					}
					out[i] = OblOutcome{o, &SolveResult{Status: st, Backend: "qv-static", Output: o.Detail}}
					continue
				}
				out[i] = OblOutcome{o, s.solve(o, o.Kind == "canary")}
			}
		}()
	}
	for i := range obls {
		ch <- i
	}
	close(ch)
	wg.Wait()
	longRetries := 0 // at most three obligations get the long third attempt (a real violation must still be reported promptly)
	// obligations that were not discharged under load are retried alone, with a doubled time limit, before they are
	// reported (solver time-outs under CPU contention must not become alarms)
	for i, oc := range out {
		if oc.O.Static != "" || oc.O.Kind == "canary" || oc.Res.Status == "unsat" {
			continue
		}
		s2 := newSolver(s.outDir, 2*s.fullT)
		s2.quickT = s.fullT
		r := s2.solve(oc.O, false)
		for k, v := range s2.totalSecs {
			s.totalSecs[k] += v
		}
		for k, v := range s2.counts {
			s.counts[k] += v
		}
		if r.Status == "unsat" || (r.Status == "sat" && oc.Res.Status != "sat") {
			out[i] = OblOutcome{oc.O, r}
			continue
		}
		// still undecided: when the machine is heavily loaded (other checks running beside this one) a time-out says
		// little, so the obligation gets one more attempt with a long limit before it is reported
		if r.Status != "sat" && longRetries < 3 && machineLoaded() {
			longRetries++
			s3 := newSolver(s.outDir, 4*s.fullT)
			s3.quickT = s.fullT
			r3 := s3.solve(oc.O, false)
			for k, v := range s3.totalSecs {
				s.totalSecs[k] += v
			}
			for k, v := range s3.counts {
				s.counts[k] += v
			}
			if r3.Status == "unsat" {
				out[i] = OblOutcome{oc.O, r3}
			}
		}
	}
	return out
}

// machineLoaded: the 1-minute load average exceeds three quarters of the CPUs.
func machineLoaded() bool {
	b, err := os.ReadFile("/proc/loadavg")
	if err != nil {
		return false
	}
	var l1 float64
	fmt.Sscanf(string(b), "%f", &l1)
	return l1 > 0.75*float64(runtime.NumCPU())
}

func cmdList(args []string) {
	fs := flag.NewFlagSet("list", flag.ExitOnError)
	repo := fs.String("repo", "/repo", "repository root")
	fs.Parse(args)
	p, err := loadProgram(*repo, nil)
	if err != nil {
		fmt.Fprintln(os.Stderr, "load:", err)
		os.Exit(2)
	}
	for _, n := range sortedKeys(p.Units) {
		u := p.Units[n]
		flag := " "
		if u.HasSpec {
			flag = "S"
		}
		if u.Assumed != "" {
			flag = "A"
		}
		fmt.Printf("%s %s\n", flag, n)
	}
	for _, e := range p.SpecErr {
		fmt.Println("SPEC ERROR:", e)
	}
}

func cmdUnits(args []string) {
	fs := flag.NewFlagSet("units", flag.ExitOnError)
	repo := fs.String("repo", "/repo", "repository root")
	timeout := fs.Duration("timeout", 10*time.Second, "solver timeout")
	verbose := fs.Bool("v", false, "print every obligation")
	out := fs.String("out", "/verif/out/smt", "directory for SMT files")
	fs.Parse(args)
	t0 := time.Now()
	p, err := loadProgram(*repo, nil)
	if err != nil {
		fmt.Fprintln(os.Stderr, "load:", err)
		os.Exit(2)
	}
	for _, e := range p.SpecErr {
		fmt.Println("SPEC ERROR:", e)
	}
	fmt.Printf("loaded in %.1fs\n", time.Since(t0).Seconds())
	units := p.unitsFor(fs.Args())
	for _, ax := range p.Axioms {
		if ax.Lemma {
			for _, pat := range fs.Args() {
				if matchPattern(pat, "lemma."+ax.Name) {
					units = append(units, &Unit{Name: "lemma." + ax.Name, HasSpec: true, Short: "lemma"})
				}
			}
		}
	}
	s := newSolver(*out, *timeout)
	bad := 0
	for _, u := range units {
		if !u.HasSpec {
			continue
		}
		var res *UnitResult
		if u.Short == "lemma" {
			for _, ax := range p.Axioms {
				if "lemma."+ax.Name == u.Name {
					res = verifyLemma(p, ax)
				}
			}
		} else {
			res = verifyUnit(p, u)
		}
		if res == nil {
			fmt.Printf("%-60s FAIL (no such lemma)\n", u.Name)
			bad++
			continue
		}
		if res.Skipped != "" {
			fmt.Printf("%-60s ASSUMED (%s)\n", u.Name, res.Skipped)
			continue
		}
		outs := dischargeAll(s, res.Obls, 5)
		agg := aggregate(outs)
		nOK, nFail, nUnk, nVac := 0, 0, 0, 0
		for _, a := range agg {
			switch a.Status {
			case "discharged":
				nOK++
			case "failed":
				nFail++
			case "vacuous":
				nVac++
			case "nonvacuous":
			default:
				nUnk++
			}
		}
		status := "OK"
		if nFail+nUnk+nVac > 0 || len(res.Limits) > 0 {
			status = "FAIL"
			bad++
		}
		fmt.Printf("%-60s %s paths=%d obligations=%d discharged=%d failed=%d unknown=%d vacuous=%d\n", u.Name, status, res.Paths, nOK+nFail+nUnk, nOK, nFail, nUnk, nVac)
		for _, l := range res.Limits {
			fmt.Printf("    LIMIT: %s\n", l)
		}
		for _, a := range agg {
			if *verbose || (a.Status != "discharged" && a.Status != "nonvacuous") {
				fmt.Printf("    %-11s %-70s [%s %.2fs] %s  (%s)\n", a.Status, a.Name, a.Backend, a.Secs, a.Detail, a.Pos)
				if a.Status == "failed" && a.Model != "" {
					fmt.Printf("        model: %s\n", strings.ReplaceAll(strings.TrimSpace(a.Model), "\n", " "))
				}
				if a.Status == "failed" || a.Status == "unknown" {
					fmt.Printf("        trace: %s\n", strings.Join(a.Trace, " "))
				}
			}
		}
	}
	fmt.Printf("total %.1fs; solver time %v; calls %v\n", time.Since(t0).Seconds(), s.totalSecs, s.counts)
	if bad > 0 {
		os.Exit(1)
	}
}

type AggOutcome struct {
	Name     string
	Kind     string
	Status   string // discharged | failed | unknown | vacuous | nonvacuous
	Backend  string
	Secs     float64
	Detail   string
	Pos      string
	Model    string
	Output   string
	Trace    []string
	Instances int
	Tags     []string
	Witness  *Obligation
}

// aggregate combines the path instances of each named obligation.
func aggregate(outs []OblOutcome) []*AggOutcome {
	m := map[string]*AggOutcome{}
	var order []string
	for _, oc := range outs {
		a, ok := m[oc.O.Name]
		if !ok {
			a = &AggOutcome{Name: oc.O.Name, Kind: oc.O.Kind, Status: "discharged", Detail: oc.O.Detail, Pos: oc.O.Pos, Tags: oc.O.Tags}
			if oc.O.Kind == "canary" {
				a.Status = "nonvacuous"
			}
			m[oc.O.Name] = a
			order = append(order, oc.O.Name)
		}
		a.Instances++
		a.Secs += oc.Res.Secs
		if a.Backend == "" {
			a.Backend = oc.Res.Backend
		} else if !strings.Contains(a.Backend, oc.Res.Backend) {
			a.Backend += "+" + oc.Res.Backend
		}
		if oc.O.Kind == "canary" {
			if oc.Res.Status == "unsat" {
				a.Status = "vacuous"
				a.Trace = oc.O.Trace
				a.Witness = oc.O
			}
			continue
		}
		switch oc.Res.Status {
		case "unsat":
		case "sat":
			if a.Status != "failed" {
				a.Status = "failed"
				a.Model = oc.Res.Model
				a.Output = oc.Res.Output
				a.Trace = oc.O.Trace
				a.Witness = oc.O
				a.Pos = oc.O.Pos
				a.Detail = oc.O.Detail
			}
		default:
			if a.Status == "discharged" {
				a.Status = "unknown"
				a.Output = oc.Res.Output
				a.Trace = oc.O.Trace
				a.Witness = oc.O
				a.Pos = oc.O.Pos
			}
		}
	}
	// a return path that is provably unreachable is fine (e.g. an error return that can never be taken); the unit is
	// vacuous only when its entry is unreachable or no return path at all is reachable
	byUnit := map[string][]*AggOutcome{}
	for _, a := range m {
		if a.Kind == "canary" && !strings.HasSuffix(a.Name, ":canary:entry") {
			u := a.Name[:strings.Index(a.Name, ":canary:")]
			byUnit[u] = append(byUnit[u], a)
		}
	}
	for _, as := range byUnit {
		anyLive := false
		for _, a := range as {
			if a.Status == "nonvacuous" {
				anyLive = true
			}
		}
		if anyLive {
			for _, a := range as {
				if a.Status == "vacuous" {
					a.Status = "nonvacuous"
					a.Detail = "return path proved unreachable"
				}
			}
		}
	}
	sort.Strings(order)
	var res []*AggOutcome
	for _, n := range order {
		res = append(res, m[n])
	}
	return res
}

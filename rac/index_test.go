package rac

import (
	"fmt"
	"math/rand"
	"testing"

	"github.com/sahandsafizadeh/qeep/tensor"
)

/* ---------------- C06: Slice / Patch / At ---------------- */

// ranges enumerates index lists for a shape: per dimension explicit sub-ranges, {0,0}, or omitted (only as a suffix).
func indexLists(rng *rand.Rand, shape []int, perShape int) [][]tensor.Range {
	var out [][]tensor.Range
	for n := 0; n <= len(shape); n++ { // n explicit entries, the rest omitted
		for rep := 0; rep < perShape; rep++ {
			idx := make([]tensor.Range, n)
			for k := 0; k < n; k++ {
				switch rng.Intn(3) {
				case 0:
					idx[k] = tensor.Range{}
				default:
					from := rng.Intn(shape[k])
					to := from + 1 + rng.Intn(shape[k]-from)
					idx[k] = tensor.Range{From: from, To: to}
				}
			}
			out = append(out, idx)
		}
	}
	return out
}

func window(idx []tensor.Range, k, size int) (int, int) {
	if k >= len(idx) || (idx[k].From == 0 && idx[k].To == 0) {
		return 0, size
	}
	return idx[k].From, idx[k].To
}

func refSlice(a Ref, idx []tensor.Range) Ref {
	s := make([]int, len(a.Shape))
	from := make([]int, len(a.Shape))
	for k := range s {
		f, t := window(idx, k, a.Shape[k])
		from[k], s[k] = f, t-f
	}
	o := newRef(s)
	src := make([]int, len(s))
	forEach(s, func(i []int) {
		for k := range i {
			src[k] = i[k] + from[k]
		}
		o.Data[o.pos(i)] = a.at(src)
	})
	return o
}

func TestSlicePatch(t *testing.T) {
	r := newReporter("TestSlicePatch")
	defer r.done(t)
	rng := rand.New(rand.NewSource(seed()))
	per := 2
	if thorough() {
		per = 6
	}
	for _, shape := range tierShapes(0) {
		a := randRef(rng, shape, -5, 5)
		x := toT(a, false)
		// At
		forEach(shape, func(i []int) {
			v, err := x.At(i...)
			if err != nil || v != a.at(i) {
				r.fail("At", fmt.Sprintf("shape %v index %v", shape, i))
			} else {
				r.ok("")
			}
		})
		for _, idx := range indexLists(rng, shape, per) {
			guard(r, "Slice", func() {
				got, err := x.Slice(idx)
				if err != nil {
					r.fail("Slice:error", fmt.Sprintf("shape %v index %v: %v", shape, idx, err))
				} else if msg := eqRef(got, refSlice(a, idx), 0); msg != "" {
					r.fail("Slice", fmt.Sprintf("shape %v index %v: %s", shape, idx, msg))
				} else {
					r.ok(fmt.Sprintf("Slice %v %v", shape, idx))
				}
			})
			// Patch: source block of the window's size (for omitted / {0,0} ranges any size <= the dimension, at offset 0)
			ss := make([]int, len(shape))
			from := make([]int, len(shape))
			for k := range shape {
				if k >= len(idx) || (idx[k].From == 0 && idx[k].To == 0) {
					ss[k] = 1 + rng.Intn(shape[k])
					from[k] = 0
				} else {
					ss[k] = idx[k].To - idx[k].From
					from[k] = idx[k].From
				}
			}
			src := randRef(rng, ss, 10, 20)
			guard(r, "Patch", func() {
				got, err := x.Patch(idx, toT(src, false))
				if err != nil {
					r.fail("Patch:error", fmt.Sprintf("target %v index %v source %v: %v", shape, idx, ss, err))
					return
				}
				want := Ref{Shape: a.Shape, Data: append([]float64{}, a.Data...)}
				dst := make([]int, len(shape))
				forEach(ss, func(i []int) {
					for k := range i {
						dst[k] = i[k] + from[k]
					}
					want.Data[want.pos(dst)] = src.at(i)
				})
				if msg := eqRef(got, want, 0); msg != "" {
					r.fail("Patch", fmt.Sprintf("target %v index %v source %v: %s", shape, idx, ss, msg))
				} else {
					r.ok(fmt.Sprintf("Patch %v %v <- %v", shape, idx, ss))
				}
				if msg := eqRef(x, a, 0); msg != "" {
					r.fail("Patch:mutated-target", msg)
				}
			})
		}
	}
}

/* ---------------- C06: reshape family, broadcast ---------------- */

func TestShapeOps(t *testing.T) {
	r := newReporter("TestShapeOps")
	defer r.done(t)
	rng := rand.New(rand.NewSource(seed()))
	all := tierShapes(0)
	for _, shape := range all {
		a := randRef(rng, shape, -5, 5)
		x := toT(a, false)
		// Reshape to every shape with the same element count
		for _, target := range all {
			guard(r, "Reshape", func() {
				got, err := x.Reshape(target)
				ok := numel(target) == numel(shape)
				switch {
				case ok && err != nil:
					r.fail("Reshape:error", fmt.Sprintf("%v -> %v: %v", shape, target, err))
				case !ok && err == nil:
					r.fail("Reshape:accepted", fmt.Sprintf("%v -> %v accepted", shape, target))
				case ok:
					if msg := eqRef(got, Ref{Shape: target, Data: a.Data}, 0); msg != "" {
						r.fail("Reshape", fmt.Sprintf("%v -> %v: %s", shape, target, msg))
					} else {
						r.ok(fmt.Sprintf("Reshape %v -> %v", shape, target))
					}
				default:
					r.ok("")
				}
			})
		}
		for d := -1; d <= len(shape)+1; d++ {
			guard(r, "UnSqueeze", func() {
				got, err := x.UnSqueeze(d)
				if d < 0 || d > len(shape) {
					if err == nil {
						r.fail("UnSqueeze:accepted", fmt.Sprintf("%v dim %d", shape, d))
					}
					return
				}
				s := append(append(append([]int{}, shape[:d]...), 1), shape[d:]...)
				if err != nil || eqRef(got, Ref{Shape: s, Data: a.Data}, 0) != "" {
					r.fail("UnSqueeze", fmt.Sprintf("%v dim %d: %v", shape, d, err))
				} else {
					r.ok("")
				}
			})
			guard(r, "Squeeze", func() {
				got, err := x.Squeeze(d)
				valid := d >= 0 && d < len(shape) && shape[d] == 1
				if !valid {
					if err == nil {
						r.fail("Squeeze:accepted", fmt.Sprintf("%v dim %d", shape, d))
					}
					return
				}
				if err != nil || eqRef(got, Ref{Shape: without(shape, d), Data: a.Data}, 0) != "" {
					r.fail("Squeeze", fmt.Sprintf("%v dim %d: %v", shape, d, err))
				} else {
					r.ok("")
				}
			})
			guard(r, "Flatten", func() {
				got, err := x.Flatten(d)
				valid := d >= 0 && d < len(shape)
				if !valid {
					if err == nil {
						r.fail("Flatten:accepted", fmt.Sprintf("%v dim %d", shape, d))
					}
					return
				}
				s := append(append([]int{}, shape[:d]...), numel(shape[d:]))
				if err != nil || eqRef(got, Ref{Shape: s, Data: a.Data}, 0) != "" {
					r.fail("Flatten", fmt.Sprintf("%v dim %d: %v", shape, d, err))
				} else {
					r.ok("")
				}
			})
		}
		// Broadcast to every target; the quick tier adds all rank-4 targets with sizes <= 2, because the interplay of new
		// leading dimensions with expanded size-1 dimensions only shows when the target has >= 2 more dimensions
		targets := all
		if !thorough() {
			targets = append(append([][]int{}, all...), shapes(4, 4, 2)...)
		}
		for _, target := range targets {
			if !thorough() && len(target) < 4 && rng.Intn(3) != 0 {
				continue
			}
			guard(r, "Broadcast", func() {
				got, err := x.Broadcast(target)
				ok := len(shape) <= len(target)
				if ok {
					off := len(target) - len(shape)
					for k := range shape {
						if shape[k] != target[k+off] && shape[k] != 1 {
							ok = false
						}
					}
				}
				switch {
				case ok && err != nil:
					r.fail("Broadcast:error", fmt.Sprintf("%v -> %v: %v", shape, target, err))
				case !ok && err == nil:
					r.fail("Broadcast:accepted", fmt.Sprintf("%v -> %v accepted", shape, target))
				case ok:
					if msg := eqRef(got, bcast(a, target), 0); msg != "" {
						r.fail("Broadcast", fmt.Sprintf("%v -> %v: %s", shape, target, msg))
					} else {
						r.ok(fmt.Sprintf("Broadcast %v -> %v", shape, target))
					}
				default:
					r.ok("")
				}
			})
		}
	}
}

/* ---------------- C06: constructors, TensorOf, Concat ---------------- */

func TestConstructors(t *testing.T) {
	r := newReporter("TestConstructors")
	defer r.done(t)
	rng := rand.New(rand.NewSource(seed()))
	for _, shape := range shapes(0, 4, 3) {
		a := randRef(rng, shape, -5, 5)
		guard(r, "TensorOf", func() {
			if msg := eqRef(toT(a, false), a, 0); msg != "" {
				r.fail("TensorOf", fmt.Sprintf("shape %v: %s", shape, msg))
			} else {
				r.ok(fmt.Sprintf("TensorOf %v", shape))
			}
		})
		for name, mk := range map[string]struct {
			f func() (tensor.Tensor, error)
			v float64
		}{
			"Full":  {func() (tensor.Tensor, error) { return tensor.Full(shape, 2.5, nil) }, 2.5},
			"Zeros": {func() (tensor.Tensor, error) { return tensor.Zeros(shape, nil) }, 0},
			"Ones":  {func() (tensor.Tensor, error) { return tensor.Ones(shape, nil) }, 1},
		} {
			guard(r, name, func() {
				got, err := mk.f()
				want := newRef(shape)
				for i := range want.Data {
					want.Data[i] = mk.v
				}
				if err != nil || eqRef(got, want, 0) != "" {
					r.fail(name, fmt.Sprintf("shape %v: %v", shape, err))
				} else {
					r.ok("")
				}
				if got != nil && got.NElems() != numel(shape) {
					r.fail("NElems", fmt.Sprintf("%v", shape))
				}
			})
		}
	}
	for n := 1; n <= 6; n++ {
		got, err := tensor.Eye(n, nil)
		want := newRef([]int{n, n})
		for i := 0; i < n; i++ {
			want.Data[i*n+i] = 1
		}
		if err != nil || eqRef(got, want, 0) != "" {
			r.fail("Eye", fmt.Sprintf("n=%d", n))
		} else {
			r.ok(fmt.Sprintf("Eye %d", n))
		}
	}
	// Concat: 2..3 operands along every dim, then slicing returns the pieces
	for _, shape := range shapes(1, 3, 3) {
		for d := range shape {
			for cnt := 2; cnt <= 3; cnt++ {
				var refs []Ref
				var ts []tensor.Tensor
				total := 0
				for c := 0; c < cnt; c++ {
					s := append([]int{}, shape...)
					s[d] = 1 + rng.Intn(3)
					total += s[d]
					a := randRef(rng, s, -5, 5)
					refs = append(refs, a)
					ts = append(ts, toT(a, false))
				}
				guard(r, "Concat", func() {
					got, err := tensor.Concat(ts, d)
					if err != nil {
						r.fail("Concat:error", fmt.Sprintf("%v along %d: %v", shape, d, err))
						return
					}
					base := 0
					okAll := true
					for _, a := range refs {
						idx := make([]tensor.Range, len(shape))
						idx[d] = tensor.Range{From: base, To: base + a.Shape[d]}
						base += a.Shape[d]
						piece, err := got.Slice(idx)
						if err != nil || eqRef(piece, a, 0) != "" {
							okAll = false
						}
					}
					if !okAll || got.Shape()[d] != total {
						r.fail("Concat", fmt.Sprintf("%v along %d (%d operands)", shape, d, cnt))
					} else {
						r.ok(fmt.Sprintf("Concat %v along %d x%d", shape, d, cnt))
					}
				})
			}
		}
	}
}

package rac

import (
	"fmt"
	"math"
	"math/rand"
	"testing"

	"github.com/sahandsafizadeh/qeep/tensor"
)

func maxRankSize() (int, int) {
	if thorough() {
		return 4, 4
	}
	return 3, 3
}

// tierShapes: the shapes a single-operand enumeration visits. Quick: every shape of rank <= 3 with sizes <= 3, plus every
// shape of rank 4 and 5 with sizes <= 2 (the generators behave differently once there are two or more leading
// dimensions: seeds C04-1, C04-3). Thorough: rank <= 4 with sizes <= 4, plus every shape of rank 5 and 6 with sizes <= 2
// (the properties quantify over ranks 0..6).
func tierShapes(minRank int) [][]int {
	mr, ms := maxRankSize()
	out := shapes(minRank, mr, ms)
	if thorough() {
		out = append(out, shapes(5, 6, 2)...)
	} else {
		out = append(out, shapes(4, 5, 2)...)
	}
	return out
}

/* ---------------- C03: element-wise operations and broadcasting ---------------- */

func TestElementwise(t *testing.T) {
	r := newReporter("TestElementwise")
	defer r.done(t)
	rng := rand.New(rand.NewSource(seed()))
	mr, ms := maxRankSize()
	special := []float64{0, -0.0, 1, -1, 2, -2.5, 1e300, -1e300, 1e-300, 0.5}
	unary := map[string]struct {
		call func(tensor.Tensor) tensor.Tensor
		ref  func(float64) float64
	}{
		"Scale": {func(x tensor.Tensor) tensor.Tensor { return x.Scale(-1.5) }, func(a float64) float64 { return -1.5 * a }},
		"Pow":   {func(x tensor.Tensor) tensor.Tensor { return x.Pow(2) }, func(a float64) float64 { return math.Pow(a, 2) }},
		"Exp":   {func(x tensor.Tensor) tensor.Tensor { return x.Exp() }, math.Exp},
		"Log":   {func(x tensor.Tensor) tensor.Tensor { return x.Log() }, math.Log},
		"Sin":   {func(x tensor.Tensor) tensor.Tensor { return x.Sin() }, math.Sin},
		"Cos":   {func(x tensor.Tensor) tensor.Tensor { return x.Cos() }, math.Cos},
		"Tan":   {func(x tensor.Tensor) tensor.Tensor { return x.Tan() }, math.Tan},
		"Sinh":  {func(x tensor.Tensor) tensor.Tensor { return x.Sinh() }, math.Sinh},
		"Cosh":  {func(x tensor.Tensor) tensor.Tensor { return x.Cosh() }, math.Cosh},
		"Tanh":  {func(x tensor.Tensor) tensor.Tensor { return x.Tanh() }, math.Tanh},
	}
	for _, shape := range tierShapes(0) {
		a := randRef(rng, shape, -3, 3)
		for i := range a.Data {
			if rng.Intn(4) == 0 {
				a.Data[i] = special[rng.Intn(len(special))]
			}
		}
		for name, op := range unary {
			key := "unary:" + name
			guard(r, key, func() {
				in := a
				if name == "Log" {
					in = map1(a, func(v float64) float64 { return math.Abs(v) + 0.1 })
				}
				if name == "Exp" || name == "Sinh" || name == "Cosh" || name == "Pow" {
					in = map1(a, func(v float64) float64 { return math.Mod(v, 50) })
				}
				got := op.call(toT(in, false))
				if msg := eqRef(got, map1(in, op.ref), 1e-12); msg != "" {
					r.fail(key, fmt.Sprintf("shape %v: %s", shape, msg))
				} else {
					r.ok(fmt.Sprintf("%s on shape %v", name, shape))
				}
			})
		}
	}
	type bin struct {
		call func(a, b tensor.Tensor) (tensor.Tensor, error)
		ref  func(x, y float64) float64
		bc   bool
	}
	b01 := func(c bool) float64 {
		if c {
			return 1
		}
		return 0
	}
	binary := map[string]bin{
		"Add":   {func(a, b tensor.Tensor) (tensor.Tensor, error) { return a.Add(b) }, func(x, y float64) float64 { return x + y }, true},
		"Sub":   {func(a, b tensor.Tensor) (tensor.Tensor, error) { return a.Sub(b) }, func(x, y float64) float64 { return x - y }, true},
		"Mul":   {func(a, b tensor.Tensor) (tensor.Tensor, error) { return a.Mul(b) }, func(x, y float64) float64 { return x * y }, true},
		"Div":   {func(a, b tensor.Tensor) (tensor.Tensor, error) { return a.Div(b) }, func(x, y float64) float64 { return x / y }, true},
		"ElMax": {func(a, b tensor.Tensor) (tensor.Tensor, error) { return a.ElMax(b) }, math.Max, false},
		"ElMin": {func(a, b tensor.Tensor) (tensor.Tensor, error) { return a.ElMin(b) }, math.Min, false},
		"Eq":    {func(a, b tensor.Tensor) (tensor.Tensor, error) { return a.Eq(b) }, func(x, y float64) float64 { return b01(x == y) }, false},
		"Ne":    {func(a, b tensor.Tensor) (tensor.Tensor, error) { return a.Ne(b) }, func(x, y float64) float64 { return b01(x != y) }, false},
		"Gt":    {func(a, b tensor.Tensor) (tensor.Tensor, error) { return a.Gt(b) }, func(x, y float64) float64 { return b01(x > y) }, false},
		"Ge":    {func(a, b tensor.Tensor) (tensor.Tensor, error) { return a.Ge(b) }, func(x, y float64) float64 { return b01(x >= y) }, false},
		"Lt":    {func(a, b tensor.Tensor) (tensor.Tensor, error) { return a.Lt(b) }, func(x, y float64) float64 { return b01(x < y) }, false},
		"Le":    {func(a, b tensor.Tensor) (tensor.Tensor, error) { return a.Le(b) }, func(x, y float64) float64 { return b01(x <= y) }, false},
	}
	all := shapes(0, mr, ms)
	for _, sa := range all {
		for _, sb := range all {
			if !thorough() && rng.Intn(3) != 0 && !sameShape(sa, sb) {
				continue
			}
			a, b := randRef(rng, sa, -3, 3), randRef(rng, sb, -3, 3)
			// exact ties in some positions
			if sameShape(sa, sb) {
				for i := range a.Data {
					if rng.Intn(3) == 0 {
						b.Data[i] = a.Data[i]
					}
				}
			}
			for name, op := range binary {
				key := "binary:" + name
				guard(r, key, func() {
					bb := b
					if name == "Div" {
						bb = map1(b, func(v float64) float64 { return v + 4 })
					}
					got, err := op.call(toT(a, false), toT(bb, false))
					want, ok := map2(a, bb, op.ref)
					if !op.bc {
						ok = sameShape(sa, sb)
					}
					switch {
					case ok && err != nil:
						r.fail(key+":error", fmt.Sprintf("%v op %v: unexpected error %v", sa, sb, err))
					case !ok && err == nil:
						r.fail(key+":accepted", fmt.Sprintf("%v op %v: incompatible shapes accepted", sa, sb))
					case ok:
						if msg := eqRef(got, want, 1e-12); msg != "" {
							r.fail(key, fmt.Sprintf("%v op %v: %s", sa, sb, msg))
						} else {
							r.ok(fmt.Sprintf("%s %v x %v", name, sa, sb))
							// identical to broadcasting explicitly first
							if op.bc {
								ea, e1 := toT(a, false).Broadcast(want.Shape)
								eb, e2 := toT(bb, false).Broadcast(want.Shape)
								if e1 != nil || e2 != nil {
									r.fail(key+":explicit", fmt.Sprintf("%v op %v: explicit Broadcast failed: %v %v", sa, sb, e1, e2))
								} else if g2, e3 := op.call(ea, eb); e3 != nil || eqRef(g2, want, 1e-12) != "" {
									r.fail(key+":explicit", fmt.Sprintf("%v op %v: differs from explicit broadcasting", sa, sb))
								}
							}
						}
					default:
						r.ok("")
					}
				})
			}
			// Equals
			if sameShape(sa, sb) {
				guard(r, "Equals", func() {
					eq, err := toT(a, false).Equals(toT(b, false))
					want := true
					for i := range a.Data {
						if a.Data[i] != b.Data[i] {
							want = false
						}
					}
					if err != nil || eq != want {
						r.fail("Equals", fmt.Sprintf("shape %v: got %v,%v want %v", sa, eq, err, want))
					} else {
						r.ok("")
					}
					eq2, _ := toT(a, false).Equals(toT(a, false))
					if !eq2 {
						r.fail("Equals:self", fmt.Sprintf("shape %v: tensor not equal to itself", sa))
					}
				})
			}
		}
	}
}

/* ---------------- C04: MatMul, Dot, Transpose ---------------- */

func refTranspose(a Ref) Ref {
	n := len(a.Shape)
	s := append([]int{}, a.Shape...)
	s[n-2], s[n-1] = s[n-1], s[n-2]
	o := newRef(s)
	src := make([]int, n)
	forEach(s, func(idx []int) {
		copy(src, idx)
		src[n-2], src[n-1] = idx[n-1], idx[n-2]
		o.Data[o.pos(idx)] = a.at(src)
	})
	return o
}

func refMatMul(a, b Ref) (Ref, bool) {
	if len(a.Shape) < 2 || len(b.Shape) < 2 {
		return Ref{}, false
	}
	na, nb := len(a.Shape), len(b.Shape)
	m, n, n2, k := a.Shape[na-2], a.Shape[na-1], b.Shape[nb-2], b.Shape[nb-1]
	if n != n2 {
		return Ref{}, false
	}
	batch, ok := bshape(a.Shape[:na-2], b.Shape[:nb-2])
	if !ok {
		return Ref{}, false
	}
	ba := bcast(a, append(append([]int{}, batch...), m, n))
	bb := bcast(b, append(append([]int{}, batch...), n, k))
	o := newRef(append(append([]int{}, batch...), m, k))
	ia := make([]int, len(batch)+2)
	ib := make([]int, len(batch)+2)
	forEach(o.Shape, func(idx []int) {
		nb := len(batch)
		copy(ia, idx[:nb])
		copy(ib, idx[:nb])
		s := 0.
		for p := 0; p < n; p++ {
			ia[nb], ia[nb+1] = idx[nb], p
			ib[nb], ib[nb+1] = p, idx[nb+1]
			s += ba.at(ia) * bb.at(ib)
		}
		o.Data[o.pos(idx)] = s
	})
	return o, true
}

func refDot(a, b Ref) (Ref, bool) {
	if len(a.Shape) < 1 || len(b.Shape) < 1 || a.Shape[len(a.Shape)-1] != b.Shape[len(b.Shape)-1] {
		return Ref{}, false
	}
	s, ok := bshape(a.Shape, b.Shape)
	if !ok {
		return Ref{}, false
	}
	ba, bb := bcast(a, s), bcast(b, s)
	prod := newRef(s)
	for i := range prod.Data {
		prod.Data[i] = ba.Data[i] * bb.Data[i]
	}
	return reduceAlong(prod, len(s)-1, sSum), true
}

func TestLinalg(t *testing.T) {
	r := newReporter("TestLinalg")
	defer r.done(t)
	rng := rand.New(rand.NewSource(seed()))
	batches := [][]int{{}, {1}, {2}, {1, 2}, {2, 1}, {2, 2}}
	if thorough() {
		batches = append(batches, []int{3}, []int{2, 1, 2}, []int{1, 1})
	}
	for _, b1 := range batches {
		for _, b2 := range batches {
			for m := 1; m <= 3; m++ {
				for n := 1; n <= 3; n++ {
					for k := 1; k <= 3; k++ {
						if !thorough() && rng.Intn(3) != 0 {
							continue
						}
						a := randRef(rng, append(append([]int{}, b1...), m, n), -2, 2)
						b := randRef(rng, append(append([]int{}, b2...), n, k), -2, 2)
						guard(r, "MatMul", func() {
							got, err := toT(a, false).MatMul(toT(b, false))
							want, ok := refMatMul(a, b)
							switch {
							case ok && err != nil:
								r.fail("MatMul:error", fmt.Sprintf("%v x %v: %v", a.Shape, b.Shape, err))
							case !ok && err == nil:
								r.fail("MatMul:accepted", fmt.Sprintf("%v x %v accepted", a.Shape, b.Shape))
							case ok:
								if msg := eqRef(got, want, 1e-10); msg != "" {
									r.fail("MatMul", fmt.Sprintf("%v x %v: %s", a.Shape, b.Shape, msg))
								} else {
									r.ok(fmt.Sprintf("MatMul %v x %v", a.Shape, b.Shape))
								}
								// (A.B)^T = B^T.A^T when the batch shapes are equal
								if sameShape(b1, b2) {
									ab, _ := toT(a, false).MatMul(toT(b, false))
									abt, e1 := ab.Transpose()
									bt, _ := toT(b, false).Transpose()
									at, _ := toT(a, false).Transpose()
									btat, e2 := bt.MatMul(at)
									if e1 != nil || e2 != nil || eqRef(abt, fromT(btat), 1e-10) != "" {
										r.fail("MatMul:transpose-identity", fmt.Sprintf("%v x %v", a.Shape, b.Shape))
									}
								}
							default:
								r.ok("")
							}
						})
					}
				}
			}
		}
	}
	// A . I = A
	for n := 1; n <= 4; n++ {
		a := randRef(rng, []int{3, n}, -2, 2)
		eye, _ := tensor.Eye(n, nil)
		got, err := toT(a, false).MatMul(eye)
		if err != nil || eqRef(got, a, 1e-12) != "" {
			r.fail("MatMul:identity", fmt.Sprintf("n=%d", n))
		} else {
			r.ok("")
		}
	}
	// entries below the library's equality tolerance (1e-240) are still numbers: a kernel that treats them as zero is
	// wrong as soon as the other factor is large (seed C16-5); also for Dot
	for _, tiny := range []float64{1e-250, -5e-241, 1e-240, 3e-300} {
		a := Ref{Shape: []int{2, 2}, Data: []float64{tiny, 2, 3, tiny}}
		b := Ref{Shape: []int{2, 2}, Data: []float64{1e260, 1, 1, 1e270}}
		for _, sw := range []bool{false, true} {
			x, y := a, b
			if sw {
				x, y = b, a
			}
			guard(r, "MatMul", func() {
				want, _ := refMatMul(x, y)
				got, err := toT(x, false).MatMul(toT(y, false))
				if err != nil {
					r.fail("MatMul:error", fmt.Sprintf("tiny %v: %v", tiny, err))
				} else if msg := eqRef(got, want, 1e-12); msg != "" {
					r.fail("MatMul", fmt.Sprintf("tiny entries %v (swapped %v): %s", tiny, sw, msg))
				} else {
					r.ok("MatMul tiny entries")
				}
			})
			guard(r, "Dot", func() {
				got, err := toT(x, false).Dot(toT(y, false))
				want := Ref{Shape: []int{2}, Data: []float64{x.Data[0]*y.Data[0] + x.Data[1]*y.Data[1], x.Data[2]*y.Data[2] + x.Data[3]*y.Data[3]}}
				if err != nil {
					r.fail("Dot:error", fmt.Sprintf("tiny %v: %v", tiny, err))
				} else if msg := eqRef(got, want, 1e-12); msg != "" {
					r.fail("Dot", fmt.Sprintf("tiny entries %v (swapped %v): %s", tiny, sw, msg))
				} else {
					r.ok("Dot tiny entries")
				}
			})
		}
	}
	// Transpose with two and three batch dimensions (every tier): a permutation of the batch positions leaves the shape
	// and every rank <= 3 case intact (seed C04-3)
	for _, sa := range shapes(4, 5, 2) {
		a := randRef(rng, sa, -2, 2)
		guard(r, "Transpose", func() {
			got, err := toT(a, false).Transpose()
			if err != nil {
				r.fail("Transpose:error", fmt.Sprintf("%v: %v", sa, err))
			} else if msg := eqRef(got, refTranspose(a), 0); msg != "" {
				r.fail("Transpose", fmt.Sprintf("%v: %s", sa, msg))
			} else {
				r.ok(fmt.Sprintf("Transpose %v", sa))
			}
		})
	}
	mr, ms := maxRankSize()
	all := shapes(1, mr, ms)
	for _, sa := range all {
		a := randRef(rng, sa, -2, 2)
		if len(sa) >= 2 {
			guard(r, "Transpose", func() {
				got, err := toT(a, false).Transpose()
				if err != nil {
					r.fail("Transpose:error", fmt.Sprintf("%v: %v", sa, err))
				} else if msg := eqRef(got, refTranspose(a), 0); msg != "" {
					r.fail("Transpose", fmt.Sprintf("%v: %s", sa, msg))
				} else {
					r.ok(fmt.Sprintf("Transpose %v", sa))
				}
			})
		}
		for _, sb := range all {
			if !thorough() && rng.Intn(4) != 0 {
				continue
			}
			b := randRef(rng, sb, -2, 2)
			guard(r, "Dot", func() {
				got, err := toT(a, false).Dot(toT(b, false))
				want, ok := refDot(a, b)
				switch {
				case ok && err != nil:
					r.fail("Dot:error", fmt.Sprintf("%v . %v: %v", sa, sb, err))
				case !ok && err == nil:
					r.fail("Dot:accepted", fmt.Sprintf("%v . %v accepted", sa, sb))
				case ok:
					if msg := eqRef(got, want, 1e-10); msg != "" {
						r.fail("Dot", fmt.Sprintf("%v . %v: %s", sa, sb, msg))
					} else {
						r.ok(fmt.Sprintf("Dot %v . %v", sa, sb))
					}
				default:
					r.ok("")
				}
			})
		}
	}
}

/* ---------------- C05: reductions ---------------- */

func TestReducers(t *testing.T) {
	r := newReporter("TestReducers")
	defer r.done(t)
	rng := rand.New(rand.NewSource(seed()))
	type along struct {
		call func(tensor.Tensor, int) (tensor.Tensor, error)
		stat func([]float64) float64
	}
	alongs := map[string]along{
		"SumAlong":  {func(x tensor.Tensor, d int) (tensor.Tensor, error) { return x.SumAlong(d) }, sSum},
		"MaxAlong":  {func(x tensor.Tensor, d int) (tensor.Tensor, error) { return x.MaxAlong(d) }, sMax},
		"MinAlong":  {func(x tensor.Tensor, d int) (tensor.Tensor, error) { return x.MinAlong(d) }, sMin},
		"AvgAlong":  {func(x tensor.Tensor, d int) (tensor.Tensor, error) { return x.AvgAlong(d) }, sMean},
		"VarAlong":  {func(x tensor.Tensor, d int) (tensor.Tensor, error) { return x.VarAlong(d) }, sVar},
		"StdAlong":  {func(x tensor.Tensor, d int) (tensor.Tensor, error) { return x.StdAlong(d) }, sStd},
		"MeanAlong": {func(x tensor.Tensor, d int) (tensor.Tensor, error) { return x.MeanAlong(d) }, sMean},
	}
	whole := map[string]struct {
		call func(tensor.Tensor) float64
		stat func([]float64) float64
	}{
		"Sum": {func(x tensor.Tensor) float64 { return x.Sum() }, sSum}, "Max": {func(x tensor.Tensor) float64 { return x.Max() }, sMax},
		"Min": {func(x tensor.Tensor) float64 { return x.Min() }, sMin}, "Avg": {func(x tensor.Tensor) float64 { return x.Avg() }, sMean},
		"Var": {func(x tensor.Tensor) float64 { return x.Var() }, sVar}, "Std": {func(x tensor.Tensor) float64 { return x.Std() }, sStd},
		"Mean": {func(x tensor.Tensor) float64 { return x.Mean() }, sMean},
	}
	for _, shape := range tierShapes(0) {
		a := randRef(rng, shape, -5, 5)
		x := toT(a, false)
		for name, w := range whole {
			guard(r, "whole:"+name, func() {
				if got, want := w.call(x), w.stat(a.Data); !closeTo(got, want, 1e-10) {
					r.fail("whole:"+name, fmt.Sprintf("shape %v: got %v want %v", shape, got, want))
				} else {
					r.ok(fmt.Sprintf("%s %v", name, shape))
				}
			})
		}
		if x.NElems() != numel(shape) {
			r.fail("NElems", fmt.Sprintf("shape %v", shape))
		}
		for d := -1; d <= len(shape); d++ {
			for name, al := range alongs {
				key := "along:" + name
				guard(r, key, func() {
					got, err := al.call(x, d)
					valid := d >= 0 && d < len(shape)
					switch {
					case valid && err != nil:
						r.fail(key+":error", fmt.Sprintf("shape %v dim %d: %v", shape, d, err))
					case !valid && err == nil:
						r.fail(key+":accepted", fmt.Sprintf("shape %v dim %d accepted", shape, d))
					case valid:
						if msg := eqRef(got, reduceAlong(a, d, al.stat), 1e-10); msg != "" {
							r.fail(key, fmt.Sprintf("shape %v dim %d: %s", shape, d, msg))
						} else {
							r.ok(fmt.Sprintf("%s %v dim %d", name, shape, d))
						}
					default:
						r.ok("")
					}
				})
			}
		}
	}
	// extrema over the whole finite range: every element far below -2^63, far above 2^63, near the largest finite
	// magnitudes, or denormal (an accumulator seeded with anything but the infinities shows here); Max / Min return an
	// element of the operand, so the comparison is exact
	scales := []struct {
		name   string
		lo, hi float64
	}{{"below-int64", -9e19, -1e19}, {"above-int64", 1e19, 9e19}, {"near-max-negative", -1.7e308, -1e308}, {"near-max-positive", 1e308, 1.7e308},
		{"denormal-positive", 5e-324, 1e-320}, {"denormal-negative", -1e-320, -5e-324}}
	for _, shape := range [][]int{{}, {1}, {3}, {2, 3}, {2, 1, 2}} {
		for _, sc := range scales {
			a := randRef(rng, shape, sc.lo, sc.hi)
			x := toT(a, false)
			for _, name := range []string{"Max", "Min"} {
				w := whole[name]
				guard(r, "whole:"+name+":extreme", func() {
					if got, want := w.call(x), w.stat(a.Data); got != want {
						r.fail("whole:"+name+":extreme", fmt.Sprintf("%s shape %v: got %v want %v", sc.name, shape, got, want))
					} else {
						r.ok(fmt.Sprintf("%s %s %v", name, sc.name, shape))
					}
				})
			}
			for d := 0; d < len(shape); d++ {
				for _, name := range []string{"MaxAlong", "MinAlong"} {
					al := alongs[name]
					guard(r, "along:"+name+":extreme", func() {
						got, err := al.call(x, d)
						if err != nil {
							r.fail("along:"+name+":extreme", fmt.Sprintf("%s shape %v dim %d: %v", sc.name, shape, d, err))
						} else if msg := eqRef(got, reduceAlong(a, d, al.stat), 0); msg != "" {
							r.fail("along:"+name+":extreme", fmt.Sprintf("%s shape %v dim %d: %s", sc.name, shape, d, msg))
						} else {
							r.ok(fmt.Sprintf("%s %s %v dim %d", name, sc.name, shape, d))
						}
					})
				}
			}
		}
	}
}

package main

import (
	"fmt"
	"go/ast"
	"go/constant"
	"go/token"
	"go/types"
	"os"
	"strings"
)

// ---------------------------------------------------------------------------------------------
// One verification run of one unit
// ---------------------------------------------------------------------------------------------

type Obligation struct {
	Name   string // unit:kind:site
	Unit   string
	Kind   string
	Site   string
	Goal   string
	Facts  []string
	Pos    string
	Trace  []string
	Tags   []string
	Detail string
	Static string // "" = SMT; "ok" / "fail" = decided by the engine (ownership / frame)
	run    *UnitRun
	Vars   map[string]string // interesting program values at this point (name -> SMT term) for replay
}

type loopCtx struct {
	onBreak    func(*State)
	onContinue func(*State)
	isSwitch   bool
}

type UnitRun struct {
	prog     *Program
	unit     *Unit
	info     *types.Info
	decls    *Decls
	obls     []*Obligation
	limits   []string
	needs    map[string]bool
	needOrd  []string
	objN     int
	entry    *State
	siteOrd  map[ast.Node]int
	loopOrd  map[ast.Stmt]int
	retOrd   map[*ast.ReturnStmt]int
	callOrd  map[*ast.CallExpr]int
	paths    int
	results  []resultVar
	varUnit  map[types.Object]*Unit // local closure variables
	allocN   int
	maxPaths int
	assumps  map[string]bool
	paramVal map[string]Val
	callees  map[string]bool
	retHook  func(*State, []Val)
	usedLemmas map[string]bool
	haveDone    map[int]bool   // have clauses evaluated on at least one return path
	haveSkipped map[int]string // have clauses that could not be evaluated on some path (reported when never evaluated)
	extra      map[string]string // named declarations / axioms this unit needs (emitted in needOrd order)
}

type resultVar struct {
	name string
	obj  *types.Var // nil for unnamed
	typ  types.Type
}

func newUnitRun(p *Program, u *Unit) *UnitRun {
	r := &UnitRun{prog: p, unit: u, info: u.Pkg.TypesInfo, decls: newDecls(), needs: map[string]bool{},
		siteOrd: map[ast.Node]int{}, loopOrd: map[ast.Stmt]int{}, retOrd: map[*ast.ReturnStmt]int{}, callOrd: map[*ast.CallExpr]int{},
		varUnit: map[types.Object]*Unit{}, maxPaths: 4000, assumps: map[string]bool{}, paramVal: map[string]Val{}, callees: map[string]bool{}, usedLemmas: map[string]bool{}, extra: map[string]string{}}
	qcount = 0 // bound-variable names restart with every unit: query text is independent of the units processed before
	return r
}

func (r *UnitRun) limit(format string, args ...any) {
	msg := fmt.Sprintf(format, args...)
	for _, l := range r.limits {
		if l == msg {
			return
		}
	}
	r.limits = append(r.limits, msg)
}

func (r *UnitRun) assumption(s string) { r.assumps[s] = true }

func (r *UnitRun) pos(n ast.Node) string {
	if n == nil {
		return r.unit.Where
	}
	p := r.prog.Fset.Position(n.Pos())
	return fmt.Sprintf("%s:%d", shortPath(p.Filename), p.Line)
}

func shortPath(f string) string {
	return strings.TrimPrefix(f, "/repo/")
}

// numberSites assigns stable ordinals (per kind, in source order) to constructs of the unit body,
// skipping nested function literals (they are separate units).
func (r *UnitRun) numberSites() {
	counts := map[string]int{}
	var walk func(n ast.Node) bool
	walk = func(n ast.Node) bool {
		switch n := n.(type) {
		case *ast.FuncLit:
			if n != r.unit.Lit {
				return false
			}
		case *ast.ForStmt, *ast.RangeStmt:
			r.loopOrd[n.(ast.Stmt)] = counts["loop"]
			counts["loop"]++
		case *ast.ReturnStmt:
			r.retOrd[n] = counts["ret"]
			counts["ret"]++
		case *ast.CallExpr:
			r.callOrd[n] = counts["call"]
			counts["call"]++
		case *ast.IndexExpr:
			r.siteOrd[n] = counts["index"]
			counts["index"]++
		case *ast.SliceExpr:
			r.siteOrd[n] = counts["slice"]
			counts["slice"]++
		case *ast.TypeAssertExpr:
			r.siteOrd[n] = counts["assert"]
			counts["assert"]++
		case *ast.SelectorExpr:
			r.siteOrd[n] = counts["sel"]
			counts["sel"]++
		case *ast.StarExpr:
			r.siteOrd[n] = counts["deref"]
			counts["deref"]++
		case *ast.BinaryExpr:
			r.siteOrd[n] = counts["bin"]
			counts["bin"]++
		case *ast.AssignStmt:
			r.siteOrd[n] = counts["assign"]
			counts["assign"]++
		case *ast.IncDecStmt:
			r.siteOrd[n] = counts["assign"]
			counts["assign"]++
		case *ast.CompositeLit:
			r.siteOrd[n] = counts["lit"]
			counts["lit"]++
		}
		return true
	}
	ast.Inspect(r.unit.Body, walk)
}

func (r *UnitRun) oblige(st *State, kind, site, goal string, n ast.Node, detail string, tags []string) *Obligation {
	if st.dead {
		return nil
	}
	// conjunctive goals are split: each conjunct is its own query under the same obligation name (smaller queries are
	// the stable ones; the instances are merged when the results are aggregated)
	if cs := splitAnd(goal); len(cs) > 1 {
		var last *Obligation
		for _, c := range cs {
			last = r.oblige(st, kind, site, c, n, detail, tags)
		}
		return last
	}
	if impl, ok := splitImpliesAnd(goal); ok {
		var last *Obligation
		for _, c := range impl {
			last = r.oblige(st, kind, site, c, n, detail, tags)
		}
		return last
	}
	o := &Obligation{Name: r.unit.Name + ":" + kind + ":" + site, Unit: r.unit.Name, Kind: kind, Site: site, Goal: goal,
		Facts: append([]string(nil), st.facts...), Pos: r.pos(n), Trace: append([]string(nil), st.trace...), Detail: detail, Tags: tags, run: r}
	o.Vars = r.snapshotVars(st)
	r.obls = append(r.obls, o)
	return o
}

func (r *UnitRun) obligeStatic(st *State, kind, site string, ok bool, n ast.Node, detail string) {
	if st.dead {
		return
	}
	o := &Obligation{Name: r.unit.Name + ":" + kind + ":" + site, Unit: r.unit.Name, Kind: kind, Site: site, Goal: "static",
		Facts: append([]string(nil), st.facts...), Pos: r.pos(n), Trace: append([]string(nil), st.trace...), Detail: detail, run: r}
	if ok {
		o.Static = "ok"
	} else {
		o.Static = "fail"
	}
	r.obls = append(r.obls, o)
}

func (r *UnitRun) snapshotVars(st *State) map[string]string {
	m := map[string]string{}
	for name, v := range r.paramVal {
		switch v.K {
		case KInt, KBool, KReal, KErr:
			m[name] = v.T
		case KSlice:
			m["len("+name+")"] = v.S.Len
			if v.S.Obj != nil {
				m["arr("+name+")"] = r.entryArr(v.S.Obj)
			} else {
				m["arr("+name+")"] = v.S.Arr
			}
			m["elem("+name+")"] = v.S.ESrt
			m["off("+name+")"] = v.S.Off
		case KStruct:
			for _, k := range sortedKeys(v.F) {
				if f := v.F[k]; f.K == KInt || f.K == KBool || f.K == KReal {
					m[name+"."+k] = f.T
				}
			}
		}
	}
	return m
}

func (r *UnitRun) entryArr(o *Obj) string {
	if r.entry != nil {
		if a, ok := r.entry.arrs[o]; ok {
			return a
		}
	}
	return ""
}

// ---------------------------------------------------------------------------------------------
// fresh values
// ---------------------------------------------------------------------------------------------

func (r *UnitRun) fresh(base, sort string) string {
	return r.decls.fresh(base, sort)
}

func (r *UnitRun) newObj(name, elemSort string, own Own) *Obj {
	r.objN++
	return &Obj{id: r.objN, name: fmt.Sprintf("%s#%d", name, r.objN), elem: elemSort, own: own}
}

// valOfSort wraps an SMT term of a known sort as a value (without Go type information).
func (r *UnitRun) valOfSort(t, sort string) Val {
	switch sort {
	case "Int":
		return intV(t)
	case "Bool":
		return boolV(t)
	case "Real":
		return realV(t)
	case "Range":
		return Val{K: KStruct, F: map[string]Val{"From": intV(sx("From", t)), "To": intV(sx("To", t))}}
	}
	if strings.HasPrefix(sort, "Sl_") {
		es := r.prog.World.elemSortOfSl(sort)
		return Val{K: KSlice, S: &SliceVal{Arr: sx("arr"+sort, t), Off: "0", Len: sx("len"+sort, t), ESrt: es, Own: OwnLib}}
	}
	return Val{K: KRef, T: t, Sort: sort}
}

func (w *World) elemSortOfSl(sl string) string {
	// recorded in the datatype declaration text
	d := w.decls.text[sl]
	i := strings.Index(d, "(Array Int ")
	if i < 0 {
		return "Int"
	}
	rest := d[i+len("(Array Int "):]
	depth := 0
	for j, c := range rest {
		if c == '(' {
			depth++
		}
		if c == ')' {
			if depth == 0 {
				return rest[:j]
			}
			depth--
		}
	}
	return "Int"
}

// fromTerm interprets an SMT term of sort sortOf(t) as a value of Go type t.
func (r *UnitRun) fromTerm(term string, t types.Type) Val {
	w := r.prog.World
	tu := types.Unalias(t)
	if isTensorType(tu) {
		return Val{K: KRef, T: term, Sort: "T", Go: t}
	}
	if isErrorType(tu) {
		return Val{K: KErr, T: term, Go: t}
	}
	if isRangeType(tu) {
		return Val{K: KStruct, F: map[string]Val{"From": intV(sx("From", term)), "To": intV(sx("To", term))}, Go: t}
	}
	switch u := tu.Underlying().(type) {
	case *types.Basic:
		switch {
		case u.Info()&types.IsInteger != 0:
			return Val{K: KInt, T: term, Go: t}
		case u.Info()&types.IsBoolean != 0:
			return Val{K: KBool, T: term, Go: t}
		case u.Info()&types.IsFloat != 0:
			return Val{K: KReal, T: term, Go: t}
		case u.Info()&types.IsString != 0:
			return Val{K: KStr, T: term, Go: t}
		}
	case *types.Slice:
		s := w.sortOf(tu)
		return Val{K: KSlice, S: &SliceVal{Arr: sx("arr"+s, term), Off: "0", Len: sx("len"+s, term), Elem: u.Elem(), ESrt: w.sortOf(u.Elem()), Own: OwnLib}, Go: t}
	case *types.Struct:
		s := w.sortOf(tu)
		f := map[string]Val{}
		for i := 0; i < u.NumFields(); i++ {
			fl := u.Field(i)
			f[fl.Name()] = r.fromTerm(sx(s+"_"+fl.Name(), term), fl.Type())
		}
		return Val{K: KStruct, F: f, Go: t}
	case *types.Signature:
		return Val{K: KFunc, Fn: &FuncVal{term: term, typ: t}, Go: t}
	case *types.Pointer, *types.Interface, *types.Map:
		return Val{K: KRef, T: term, Sort: w.sortOf(tu), Go: t}
	}
	panic(toolLimit("fromTerm: unsupported type " + t.String()))
}

// toTerm converts a value to an SMT term of sort sortOf(t) (for storing in arrays / heap maps / passing to UFs).
func (r *UnitRun) toTerm(st *State, v Val, t types.Type) string {
	w := r.prog.World
	switch v.K {
	case KInt, KBool, KErr, KStr:
		if v.K == KInt && t != nil {
			if b, ok := types.Unalias(t).Underlying().(*types.Basic); ok && b.Info()&types.IsFloat != 0 {
				return toReal(v)
			}
		}
		return v.T
	case KReal:
		return v.T
	case KRef:
		return v.T
	case KUnit:
		if v.T == "nil" && t != nil {
			if _, ok := types.Unalias(t).Underlying().(*types.Slice); ok {
				s := w.sortOf(t)
				a := r.fresh("nilarr", fmt.Sprintf("(Array Int %s)", w.sortOf(types.Unalias(t).Underlying().(*types.Slice).Elem())))
				return sx("mk"+s, a, "0")
			}
			if _, ok := types.Unalias(t).Underlying().(*types.Signature); ok {
				r.needFn()
				return "nil_Fn"
			}
			if isErrorType(t) {
				return "true"
			}
			return w.nilOf(w.sortOf(t))
		}
	case KStruct:
		if isRangeType(t) || (t == nil && len(v.F) == 2 && v.F["From"].K == KInt) {
			return sx("mkRange", v.F["From"].T, v.F["To"].T)
		}
		u := types.Unalias(t).Underlying().(*types.Struct)
		s := w.sortOf(t)
		var args []string
		for i := 0; i < u.NumFields(); i++ {
			fl := u.Field(i)
			args = append(args, r.toTerm(st, v.F[fl.Name()], fl.Type()))
		}
		if len(args) == 0 {
			args = []string{"0"}
		}
		return sx("mk"+s, args...)
	case KSlice:
		s := "Sl_" + sanitize(v.S.ESrt)
		if t != nil {
			s = w.sortOf(t)
		} else {
			w.ensureSl(v.S.ESrt)
		}
		arr := r.sliceArr(st, v.S)
		if v.S.Off != "0" {
			// shifted copy
			a2 := r.fresh("shift", fmt.Sprintf("(Array Int %s)", v.S.ESrt))
			qcount++
			k := fmt.Sprintf("k!q%d", qcount)
			st.assume(fmt.Sprintf("(forall ((%s Int)) (! (= (select %s %s) (select %s (+ %s %s))) :pattern ((select %s %s))))", k, a2, k, arr, v.S.Off, k, a2, k))
			arr = a2
		}
		if v.S.Obj != nil {
			st.frozen[v.S.Obj] = true
		}
		return sx("mk"+s, arr, v.S.Len)
	case KFunc:
		if v.Fn.term != "" {
			return v.Fn.term
		}
		r.needFn()
		f := r.fresh("fn_"+strings.ReplaceAll(v.Fn.unit.Name, "#", "_"), "Fn")
		st.assume(not(eq(f, "nil_Fn")))
		v.Fn.term = f
		r.pureClosureAxioms(st, v.Fn.unit, f)
		st.markFresh(f)
		if au, ok := r.prog.Units[v.Fn.unit.Implements]; ok && au.modifiesGenIdx() {
			// a generator starts at abstract index 0 (ghost update of the entry of this new function value only)
			cur := st.ghost["genIdx"]
			cur.T = sx("store", cur.T, f, zeroIdx)
			st.ghost["genIdx"] = cur
		}
		if cu := v.Fn.unit; len(cu.Yields) > 0 || len(cu.Invariant) > 0 {
			self := Val{K: KFunc, Fn: &FuncVal{term: f, typ: cu.Sig}}
			envC := &SpecEnv{run: r, st: st, old: r.entry, bound: map[string]Val{"self": self}}
			for _, c := range cu.Yields {
				st.assume(r.specBool(envC, c, "yields of "+cu.Name))
			}
			for i, c := range cu.Invariant {
				goal := r.specBool(envC, c, "closure invariant of "+cu.Name)
				r.oblige(st, "closure-inv", fmt.Sprintf("%s.%d.init", cu.Name, i), goal, cu.Lit, "closure invariant established where "+cu.Name+" is created: "+c.Text, c.Tags)
			}
		}
		if cu := v.Fn.unit; cu.Source != "" || cu.Target != "" {
			gh := r.bindEdgeGhost(st, cu, f)
			// static preconditions of an escaping closure are checked where it is created
			env := &SpecEnv{run: r, st: st, old: r.entry, bound: gh}
			for i, c := range cu.Requires {
				goal := r.specBool(env, c, "requires of closure "+cu.Name)
				r.oblige(st, "closure-pre", fmt.Sprintf("%s.%d", cu.Name, i), goal, cu.Lit, "static precondition of escaping closure "+cu.Name+": "+c.Text, c.Tags)
			}
		}
		return f
	case KPtr:
		if pp, ok := v.P.(*paramPtrLoc); ok {
			return pp.ref
		}
		if fl, ok := v.P.(*fieldLoc); ok {
			// pointer to a heap field: encode as a reference cell identified by (object, field)
			s := w.sortOf(t)
			r.decls.declare("fieldptr_"+sanitize(fl.fi.name), fmt.Sprintf("(declare-fun fieldptr_%s (%s) %s)", sanitize(fl.fi.name), fl.fi.refSort, s))
			return sx("fieldptr_"+sanitize(fl.fi.name), fl.ref)
		}
	}
	panic(toolLimit(fmt.Sprintf("toTerm: unsupported value %s for type %v", v, t)))
}

func (w *World) ensureSl(es string) string {
	s := "Sl_" + sanitize(es)
	if !w.slSorts[s] {
		w.slSorts[s] = true
		w.decls.declare(s, fmt.Sprintf("(declare-datatypes ((%s 0)) (((mk%s (arr%s (Array Int %s)) (len%s Int))))) ", s, s, s, es, s))
	}
	return s
}

// coerce a spec value to an SMT term of the given sort.
func (r *UnitRun) coerce(st *State, v Val, sort, ctx string) string {
	switch sort {
	case "Real":
		if v.K == KInt || v.K == KReal {
			return toReal(v)
		}
	case "Int":
		if v.K == KInt || v.K == KStr {
			return v.T
		}
	case "Bool":
		if v.K == KBool || v.K == KErr {
			return v.T
		}
	case "(Array Int Int)":
		if v.K == KSlice {
			return r.zeroBased(st, v.S)
		}
		if v.K == KRef {
			return v.T
		}
	default:
		if v.K == KRef {
			return v.T
		}
		if v.K == KUnit && v.T == "nil" {
			return r.prog.World.nilOf(sort)
		}
		if v.K == KSlice && strings.HasPrefix(sort, "Sl_") {
			return r.toTerm(st, v, nil)
		}
		if v.K == KStruct && sort == "Range" {
			return r.toTerm(st, v, nil)
		}
		if v.K == KFunc && sort == "Fn" {
			return r.toTerm(st, v, nil)
		}
		if v.K == KPtr {
			return r.toTerm(st, v, nil)
		}
	}
	specFail("%s: cannot use %s as %s", ctx, v, sort)
	return ""
}

// symbolic creates an unconstrained value of Go type t.
func (r *UnitRun) symbolic(st *State, t types.Type, base string, own Own) Val {
	w := r.prog.World
	tu := types.Unalias(t)
	if isTensorType(tu) {
		return Val{K: KRef, T: r.fresh(base, "T"), Sort: "T", Go: t}
	}
	if isErrorType(tu) {
		return Val{K: KErr, T: r.fresh(base, "Bool"), Go: t}
	}
	switch u := tu.Underlying().(type) {
	case *types.Basic:
		return r.fromTerm(r.fresh(base, w.sortOf(tu)), t)
	case *types.Slice:
		es := w.sortOf(u.Elem())
		o := r.newObj(base, es, own)
		o.param = true
		st.arrs[o] = r.fresh(base+"_arr", fmt.Sprintf("(Array Int %s)", es))
		ln := r.fresh(base+"_len", "Int")
		st.assume(sx(">=", ln, "0"))
		return Val{K: KSlice, S: &SliceVal{Obj: o, Off: "0", Len: ln, Cap: "", Elem: u.Elem(), ESrt: es}, Go: t}
	case *types.Struct:
		f := map[string]Val{}
		for i := 0; i < u.NumFields(); i++ {
			fl := u.Field(i)
			f[fl.Name()] = r.symbolic(st, fl.Type(), base+"_"+fl.Name(), own)
		}
		return Val{K: KStruct, F: f, Go: t}
	case *types.Signature:
		r.needFn()
		return Val{K: KFunc, Fn: &FuncVal{term: r.fresh(base, "Fn"), typ: t}, Go: t}
	case *types.Pointer:
		if _, ok := u.Elem().Underlying().(*types.Struct); ok {
			return Val{K: KRef, T: r.fresh(base, w.sortOf(tu)), Sort: w.sortOf(tu), Go: t}
		}
		// pointer to a cell (e.g. *tensor.Tensor, *any): in/out parameter
		ref := r.fresh(base, w.sortOf(tu))
		nilb := eq(ref, w.nilOf(w.sortOf(tu)))
		key := "*" + base
		st.ghost[key] = r.symbolic(st, u.Elem(), base+"_deref", own)
		return Val{K: KPtr, P: &paramPtrLoc{key: key, isNil: nilb, ref: ref, elem: u.Elem()}, Go: t}
	case *types.Interface, *types.Map:
		return Val{K: KRef, T: r.fresh(base, w.sortOf(tu)), Sort: w.sortOf(tu), Go: t}
	}
	panic(toolLimit("symbolic: unsupported type " + t.String()))
}

// symbolicParam: an unconstrained *incoming* value (parameter, receiver, captured variable). A slice handed in is a
// window (offset, length) into some backing array: the callee must be correct for every offset, since callers pass
// re-sliced values (dims[1:], index[1:]) and the callee's contract is applied to them. Slices that a callee returns
// are new windows of their own and keep offset 0 (see symbolic).
func (r *UnitRun) symbolicParam(st *State, t types.Type, base string, own Own) Val {
	v := r.symbolic(st, t, base, own)
	if v.K == KSlice && v.S.Obj != nil {
		off := r.fresh(base+"_off", "Int")
		st.assume(sx(">=", off, "0"))
		v.S.Off = off
		r.addView(st, v.S, base)
	}
	return v
}

// zero value of a Go type
func (r *UnitRun) zero(st *State, t types.Type) Val {
	w := r.prog.World
	tu := types.Unalias(t)
	if isTensorType(tu) {
		return Val{K: KRef, T: "nilT", Sort: "T", Go: t}
	}
	if isErrorType(tu) {
		return Val{K: KErr, T: "true", Go: t}
	}
	switch u := tu.Underlying().(type) {
	case *types.Basic:
		switch {
		case u.Info()&types.IsInteger != 0:
			return Val{K: KInt, T: "0", Go: t}
		case u.Info()&types.IsBoolean != 0:
			return Val{K: KBool, T: "false", Go: t}
		case u.Info()&types.IsFloat != 0:
			return Val{K: KReal, T: "0.0", Go: t}
		case u.Info()&types.IsString != 0:
			return Val{K: KStr, T: w.internStr(""), Go: t}
		}
	case *types.Slice:
		es := w.sortOf(u.Elem())
		return Val{K: KSlice, S: &SliceVal{Arr: r.fresh("nilarr", fmt.Sprintf("(Array Int %s)", es)), Off: "0", Len: "0", Cap: "0", Elem: u.Elem(), ESrt: es, Own: OwnFresh}, Go: t}
	case *types.Struct:
		f := map[string]Val{}
		for i := 0; i < u.NumFields(); i++ {
			fl := u.Field(i)
			f[fl.Name()] = r.zero(st, fl.Type())
		}
		return Val{K: KStruct, F: f, Go: t}
	case *types.Signature:
		r.needFn()
		return Val{K: KFunc, Fn: &FuncVal{term: "nil_Fn", typ: t}, Go: t}
	case *types.Pointer:
		if _, ok := u.Elem().Underlying().(*types.Struct); ok {
			s := w.sortOf(tu)
			return Val{K: KRef, T: w.nilOf(s), Sort: s, Go: t}
		}
		s := w.sortOf(tu)
		return Val{K: KPtr, P: &paramPtrLoc{key: "*nil", isNil: "true", ref: w.nilOf(s), elem: u.Elem()}, Go: t}
	case *types.Interface:
		s := w.sortOf(tu)
		if s == "Data" {
			r.needData()
			return Val{K: KRef, T: "nilData", Sort: s, Go: t}
		}
		return Val{K: KRef, T: w.nilOf(s), Sort: s, Go: t}
	case *types.Map:
		s := w.sortOf(tu)
		es := w.sortOf(u.Elem())
		ks := w.sortOf(u.Key())
		has := r.fresh("nohas", fmt.Sprintf("(Array %s Bool)", ks))
		st.assume(fmt.Sprintf("(forall ((k!z %s)) (not (select %s k!z)))", ks, has))
		return Val{K: KRef, T: sx("mk"+s, has, r.fresh("noget", fmt.Sprintf("(Array %s %s)", ks, es)), "true"), Sort: s, Go: t}
	}
	panic(toolLimit("zero: unsupported type " + t.String()))
}

func (r *UnitRun) needFn() {
	r.prog.World.decls.declare("nil_Fn", "(declare-fun nil_Fn () Fn)")
}

func (r *UnitRun) needData() {
	r.prog.World.decls.declare("nilData", "(declare-fun nilData () Data)")
}

// constByName resolves package-level constants usable in specs ("epsilon", "tensor.CPU", ...).
func (r *UnitRun) constByName(name string) (Val, bool) {
	var scope *types.Scope
	short := ""
	if i := strings.Index(name, "."); i >= 0 {
		short, name = name[:i], name[i+1:]
		for _, p := range r.prog.Pkgs {
			if shortName(p.PkgPath) == short || p.Types.Name() == short {
				scope = p.Types.Scope()
				break
			}
		}
		if short == "math" {
			return Val{}, false
		}
	} else if r.unit.Pkg != nil {
		scope = r.unit.Pkg.Types.Scope()
	}
	if scope == nil {
		return Val{}, false
	}
	obj := scope.Lookup(name)
	c, ok := obj.(*types.Const)
	if !ok {
		return Val{}, false
	}
	return r.constVal(c.Val(), c.Type()), true
}

func (r *UnitRun) constVal(cv constant.Value, t types.Type) Val {
	switch cv.Kind() {
	case constant.Bool:
		if constant.BoolVal(cv) {
			return boolV("true")
		}
		return boolV("false")
	case constant.String:
		return Val{K: KStr, T: r.prog.World.internStr(constant.StringVal(cv)), Go: t}
	case constant.Int:
		if b, ok := types.Unalias(t).Underlying().(*types.Basic); ok && b.Info()&types.IsFloat != 0 {
			return Val{K: KReal, T: realLit(cv.ExactString()), Go: t}
		}
		n, _ := constant.Int64Val(cv)
		return Val{K: KInt, T: intLit(n), Go: t}
	case constant.Float:
		if b, ok := types.Unalias(t).Underlying().(*types.Basic); ok && b.Info()&types.IsInteger != 0 {
			n, _ := constant.Int64Val(constant.ToInt(cv))
			return Val{K: KInt, T: intLit(n), Go: t}
		}
		f, _ := constant.Float64Val(cv)
		return Val{K: KReal, T: realLit(fmt.Sprintf("%g", f)), Go: t}
	}
	panic(toolLimit("unsupported constant " + cv.String()))
}

// ---------------------------------------------------------------------------------------------
// slices
// ---------------------------------------------------------------------------------------------

func (r *UnitRun) sliceArr(st *State, s *SliceVal) string {
	if s.Obj != nil {
		if a, ok := st.arrs[s.Obj]; ok {
			return a
		}
		panic(toolLimit("slice object " + s.Obj.name + " unknown in state"))
	}
	return s.Arr
}

// addView gives a slice whose offset is not the literal 0 a zero-based view of its window.
// Zero-based views. A slice with a symbolic offset is read through an array term `view` with view[k] == arr[off+k]
// (contracts then talk about positions 0..len-1 and quantifier patterns contain no arithmetic). Views are looked up per
// *state* by (backing array term, offset): the defining fact lives in the state that created the view and in its
// clones, and a view is never used in a state that does not have that fact. (SliceVal values are shared between states,
// so nothing is cached on them.)
func viewKey(arr, off string) string { return "zb:" + arr + "@" + off }

func (r *UnitRun) lookupView(st *State, s *SliceVal) (string, bool) {
	if st == nil || s.Off == "0" {
		return "", false
	}
	v, ok := st.ghost[viewKey(r.sliceArr(st, s), s.Off)]
	return v.T, ok
}

func (r *UnitRun) addView(st *State, s *SliceVal, base string) string {
	if s.Off == "0" || st == nil {
		return ""
	}
	if v, ok := r.lookupView(st, s); ok {
		return v
	}
	arr := r.sliceArr(st, s)
	v := r.fresh(base+"_view", fmt.Sprintf("(Array Int %s)", s.ESrt))
	qcount++
	k := fmt.Sprintf("k!q%d", qcount)
	st.assume(fmt.Sprintf("(forall ((%s Int)) (! (= (select %s %s) (select %s (+ %s %s))) :pattern ((select %s %s))))", k, v, k, arr, s.Off, k, v, k))
	st.ghost[viewKey(arr, s.Off)] = Val{K: KRef, T: v, Sort: "view"}
	return v
}

// zeroBased returns an array term holding the slice's window at positions 0..len-1 (the raw array when the offset is the
// literal 0, otherwise a view, created on demand).
func (r *UnitRun) zeroBased(st *State, s *SliceVal) string {
	if s.Off == "0" {
		return r.sliceArr(st, s)
	}
	if st == nil {
		specFail("slice with a non-zero offset used as an array outside a state")
	}
	return r.addView(st, s, "win")
}

func (r *UnitRun) sliceElem(st *State, s *SliceVal, idx string) Val {
	if v, ok := r.lookupView(st, s); ok {
		// a view of the current backing array exists in this state
		t := sx("select", v, idx)
		if s.Elem != nil {
			return r.lenFact(st, r.fromTerm(t, s.Elem))
		}
		return r.lenFact(st, r.valOfSort(t, s.ESrt))
	}
	t := sx("select", r.sliceArr(st, s), add(s.Off, idx))
	if s.Elem != nil {
		return r.lenFact(st, r.fromTerm(t, s.Elem))
	}
	return r.lenFact(st, r.valOfSort(t, s.ESrt))
}

// lenFact records that a slice value read out of the heap / another slice has a non-negative length.
func (r *UnitRun) lenFact(st *State, v Val) Val {
	if v.K == KSlice && v.S.Obj == nil && st != nil {
		f := sx(">=", v.S.Len, "0")
		if !strings.Contains(v.S.Len, "!q") {
			for _, x := range st.facts {
				if x == f {
					return v
				}
			}
			st.assume(f)
		}
	}
	return v
}

func (r *UnitRun) sliceIsNil(s *SliceVal) string {
	return eq(s.Len, "0")
}

// ---------------------------------------------------------------------------------------------
// fields
// ---------------------------------------------------------------------------------------------

func (r *UnitRun) heapTerm(st *State, fi fieldInfo) string {
	if t, ok := st.heap[fi.name]; ok {
		return t
	}
	name := "H_" + sanitize(fi.name) + "!0"
	r.decls.declare(name, fmt.Sprintf("(declare-fun %s () (Array %s %s))", name, fi.refSort, fi.valSort))
	st.heap[fi.name] = name
	if r.entry != nil {
		if _, ok := r.entry.heap[fi.name]; !ok {
			r.entry.heap[fi.name] = name
		}
	}
	return name
}

func (r *UnitRun) structTypeOf(v Val) (types.Type, bool) {
	if v.Go == nil {
		return nil, false
	}
	t := types.Unalias(v.Go)
	if p, ok := t.Underlying().(*types.Pointer); ok {
		if _, ok := p.Elem().Underlying().(*types.Struct); ok {
			return p.Elem(), true
		}
	}
	return nil, false
}

// cpuTensorStruct finds the CPUTensor struct type (for spec access t.dims on interface-typed values).
func (r *UnitRun) cpuTensorStruct() types.Type {
	for _, p := range r.prog.Pkgs {
		if shortName(p.PkgPath) == "cputensor" {
			return p.Types.Scope().Lookup("CPUTensor").Type()
		}
	}
	panic(toolLimit("no CPUTensor type"))
}

// selectField reads base.name; n (may be nil) is the AST node for nil-dereference obligations.
func (r *UnitRun) selectField(st *State, base Val, name string, n ast.Node) Val {
	switch base.K {
	case KStruct:
		if f, ok := base.F[name]; ok {
			return f
		}
	case KRef:
		var sty types.Type
		if t, ok := r.structTypeOf(base); ok {
			sty = t
		} else if base.Sort == "T" {
			sty = r.cpuTensorStruct()
		} else if strings.HasPrefix(base.Sort, "R_") {
			sty = r.structBySort(base.Sort)
		}
		if sty != nil {
			fi := r.prog.World.field(sty, name)
			if n != nil {
				r.oblige(st, "nil", fmt.Sprintf("sel%d", r.siteOrd[n]), not(eq(base.T, r.prog.World.nilOf(base.Sort))), n, "nil dereference reading ."+name, nil)
			}
			v := r.lenFact(st, r.fromTerm(sx("select", r.heapTerm(st, fi), base.T), fi.goType))
			if v.K == KSlice {
				sc := *v.S
				sc.From = &fieldLoc{r: r, ref: base.T, fi: fi, n: n}
				v.S = &sc
			}
			return v
		}
	case KPtr:
		return r.selectField(st, base.P.load(st), name, n)
	}
	panic(toolLimit(fmt.Sprintf("cannot select .%s from %s", name, base)))
}

func (r *UnitRun) structBySort(sort string) types.Type {
	name := strings.TrimPrefix(sort, "R_")
	for _, p := range r.prog.Pkgs {
		if obj := p.Types.Scope().Lookup(name); obj != nil {
			if _, ok := obj.Type().Underlying().(*types.Struct); ok {
				return obj.Type()
			}
		}
	}
	return nil
}

func debugf(format string, args ...any) {
	if os.Getenv("QV_DEBUG") != "" {
		fmt.Fprintf(os.Stderr, format+"\n", args...)
	}
}

var _ = token.NoPos

func (r *UnitRun) ptrTypeByName(name string) types.Type {
	if t := r.structByName(name); t != nil {
		r.prog.World.sortOf(types.NewPointer(t))
		return types.NewPointer(t)
	}
	panic(toolLimit("no struct type " + name))
}

// pureClosureAxioms: for a function literal over float64 / *CPUTensor parameters with one float64 result and no loops,
// the value semantics is obtained by symbolically executing its body:  forall args. pathcond => app(f, args) = result.
func (r *UnitRun) pureClosureAxioms(st *State, u *Unit, f string) {
	if u == nil || u.Lit == nil || u.Sig.Results().Len() != 1 {
		return
	}
	rb, ok := types.Unalias(u.Sig.Results().At(0).Type()).Underlying().(*types.Basic)
	if !ok || rb.Info()&types.IsFloat == 0 {
		return
	}
	var sorts []string
	for i := 0; i < u.Sig.Params().Len(); i++ {
		pt := types.Unalias(u.Sig.Params().At(i).Type())
		if b, ok := pt.Underlying().(*types.Basic); ok && b.Info()&types.IsFloat != 0 {
			sorts = append(sorts, "Real")
		} else if isTensorType(pt) {
			sorts = append(sorts, "T")
		} else {
			return
		}
	}
	hasLoop := false
	ast.Inspect(u.Body, func(n ast.Node) bool {
		switch n.(type) {
		case *ast.ForStmt, *ast.RangeStmt:
			hasLoop = true
		}
		return true
	})
	if hasLoop || len(sorts) == 0 {
		return
	}
	app := "app_" + strings.Join(sorts, "_")
	r.prog.World.decls.declare(app, fmt.Sprintf("(declare-fun %s (Fn %s) Real)", app, strings.Join(sorts, " ")))
	sub := st.clone()
	n0 := len(sub.facts)
	b0 := len(sub.branch)
	var binders, args []string
	for i := 0; i < u.Sig.Params().Len(); i++ {
		pv := u.Sig.Params().At(i)
		qcount++
		name := fmt.Sprintf("%s!q%d", sanitize(pv.Name()), qcount)
		binders = append(binders, fmt.Sprintf("(%s %s)", name, sorts[i]))
		args = append(args, name)
		if sorts[i] == "Real" {
			sub.bind(pv, Val{K: KReal, T: name, Go: pv.Type()})
		} else {
			sub.bind(pv, Val{K: KRef, T: name, Sort: "T", Go: pv.Type()})
		}
	}
	var cases []string
	declMark := len(r.decls.order)
	savedHook, savedObls, savedUnit, savedInfo := r.retHook, r.obls, r.unit, r.info
	savedSite, savedLoop, savedRet, savedCall, savedRes := r.siteOrd, r.loopOrd, r.retOrd, r.callOrd, r.results
	r.unit, r.info = u, u.Pkg.TypesInfo
	r.siteOrd, r.loopOrd, r.retOrd, r.callOrd = map[ast.Node]int{}, map[ast.Stmt]int{}, map[*ast.ReturnStmt]int{}, map[*ast.CallExpr]int{}
	r.results = nil
	r.numberSites()
	r.retHook = func(s2 *State, vals []Val) {
		isBranch := map[string]bool{}
		for _, c := range s2.branch[b0:] {
			isBranch[c] = true
		}
		var assumed []string
		for _, c := range s2.facts[n0:] {
			if !isBranch[c] {
				assumed = append(assumed, c)
			}
		}
		pc := and(s2.branch[b0:]...)
		cases = append(cases, implies(pc, and(append(assumed, eq(sx(app, append([]string{f}, args...)...), toReal(vals[0])))...)))
	}
	func() {
		defer func() {
			r.retHook, r.unit, r.info = savedHook, savedUnit, savedInfo
			r.siteOrd, r.loopOrd, r.retOrd, r.callOrd, r.results = savedSite, savedLoop, savedRet, savedCall, savedRes
			// safety obligations inside the literal belong to the literal's own unit, not to the creation site
			r.obls = savedObls
		}()
		r.execBlock(sub, u.Body, func(*State) {})
	}()
	if len(cases) == 0 {
		return
	}
	body := and(cases...)
	// symbols created while executing the body depend on the arguments: turn them into Skolem functions of the binders
	for _, name := range r.decls.order[declMark:] {
		d := r.decls.text[name]
		pre := "(declare-fun " + name + " () "
		if !strings.HasPrefix(d, pre) {
			continue
		}
		srt := strings.TrimSuffix(strings.TrimPrefix(d, pre), ")")
		r.decls.text[name] = fmt.Sprintf("(declare-fun %s (%s) %s)", name, strings.Join(sorts, " "), srt)
		body = replaceToken(body, name, "("+name+" "+strings.Join(args, " ")+")")
	}
	st.assume(fmt.Sprintf("(forall (%s) (! %s :pattern ((%s %s))))", strings.Join(binders, " "), body, app, strings.Join(append([]string{f}, args...), " ")))
}

// replaceToken replaces whole-token occurrences of name in an s-expression string.
func replaceToken(s, name, by string) string {
	var b strings.Builder
	for i := 0; i < len(s); {
		j := strings.Index(s[i:], name)
		if j < 0 {
			b.WriteString(s[i:])
			break
		}
		j += i
		end := j + len(name)
		leftOK := j == 0 || s[j-1] == ' ' || s[j-1] == '('
		rightOK := end == len(s) || s[end] == ' ' || s[end] == ')'
		b.WriteString(s[i:j])
		if leftOK && rightOK {
			b.WriteString(by)
		} else {
			b.WriteString(name)
		}
		i = end
	}
	return b.String()
}

// sexprArgs splits "(op a b c)" into op and its top-level arguments.
func sexprArgs(s string) (string, []string) {
	if len(s) < 2 || s[0] != '(' || s[len(s)-1] != ')' {
		return "", nil
	}
	body := s[1 : len(s)-1]
	var parts []string
	depth, start := 0, 0
	for i := 0; i <= len(body); i++ {
		if i == len(body) || (body[i] == ' ' && depth == 0) {
			if i > start {
				parts = append(parts, body[start:i])
			}
			start = i + 1
			continue
		}
		switch body[i] {
		case '(':
			depth++
		case ')':
			depth--
		}
	}
	if len(parts) == 0 {
		return "", nil
	}
	return parts[0], parts[1:]
}

func splitAnd(goal string) []string {
	op, args := sexprArgs(goal)
	if op != "and" {
		return nil
	}
	var out []string
	for _, a := range args {
		if sub := splitAnd(a); len(sub) > 1 {
			out = append(out, sub...)
		} else {
			out = append(out, a)
		}
	}
	return out
}

// splitImpliesAnd turns (=> p (and a b)) into (=> p a), (=> p b).
func splitImpliesAnd(goal string) ([]string, bool) {
	op, args := sexprArgs(goal)
	if op != "=>" || len(args) != 2 {
		return nil, false
	}
	cs := splitAnd(args[1])
	if len(cs) < 2 {
		return nil, false
	}
	var out []string
	for _, c := range cs {
		out = append(out, sx("=>", args[0], c))
	}
	return out, true
}

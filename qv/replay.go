package main

// replayModel turns a solver model of a failed obligation into a Go test against the real code (integer-level
// functions only). Returns the transcript and whether the failure was confirmed.
func replayModel(a *AggOutcome, repo string) (string, bool) {
	return "", false
}

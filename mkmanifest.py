#!/usr/bin/env python3
"""Refreshes the per-check texts of MANIFEST.json from props.json (explanations) and validates the result."""
import json
m = json.load(open('/verif/MANIFEST.json'))
props = {p['id']: p for p in json.load(open('/verif/props.json'))}
GEN = ("Contract-based deductive verification of the real code for the per-function part (every obligation discharged for all inputs), combined with "
       "clearly labelled bounded stand-ins and paper lemmas for the part named in the explanation; bounded parts are never counted as proved. ")
PROOF = ("Every obligation generated from the current source of the functions this property depends on is discharged by an SMT solver (or by qv's "
         "static ownership/frame analysis) for all inputs, with no bound; nothing is bounded. ")
for c in m['checks']:
    p = props[c['property_id']]
    c['level_claimed']['text'] = (PROOF if p['level'] == 'proof' else GEN) + p['explanation']
    c['level_claimed']['category'] = p['level']
    c['level_note'] = ("Trusted: qv (VC generation, SMT prelude / domain axioms, its induction principle), z3 4.8.12 / z3 5.1.0 / cvc5 1.0, go/types. int as mathematical "
                       "integers, float64 as reals (no rounding / NaN / Inf beyond definedness obligations). The remaining assumed contracts (copiedWithPatchOf, "
                       "initConcatResultTensor) are each backed by a bounded stand-in; definitions, paper lemmas and every assumption are listed in the "
                       "evidence file." + (" Bounded stand-ins: " + "; ".join(b['test'] for b in p['bounded']) + "." if p['bounded'] else ""))
json.dump(m, open('/verif/MANIFEST.json', 'w'), indent=1)
try:
    import jsonschema
    jsonschema.validate(m, json.load(open('/root/.vp/MANIFEST.schema.json')))
    print('MANIFEST valid')
except ImportError:
    print('run with python3-vt to validate')

package main

import (
	"fmt"
	"sort"
	"strings"
)

// ---------------------------------------------------------------------------------------------
// SMT terms are plain s-expression strings; sorts are strings too.
// ---------------------------------------------------------------------------------------------

func sx(op string, args ...string) string {
	if len(args) == 0 {
		return op
	}
	return "(" + op + " " + strings.Join(args, " ") + ")"
}

func and(args ...string) string {
	var xs []string
	for _, a := range args {
		if a == "true" {
			continue
		}
		if a == "false" {
			return "false"
		}
		xs = append(xs, a)
	}
	switch len(xs) {
	case 0:
		return "true"
	case 1:
		return xs[0]
	}
	return sx("and", xs...)
}

func or(args ...string) string {
	var xs []string
	for _, a := range args {
		if a == "false" {
			continue
		}
		if a == "true" {
			return "true"
		}
		xs = append(xs, a)
	}
	switch len(xs) {
	case 0:
		return "false"
	case 1:
		return xs[0]
	}
	return sx("or", xs...)
}

func not(a string) string {
	switch a {
	case "true":
		return "false"
	case "false":
		return "true"
	}
	if strings.HasPrefix(a, "(not ") && balancedTail(a[5:len(a)-1]) {
		return a[5 : len(a)-1]
	}
	return sx("not", a)
}

func balancedTail(s string) bool {
	d := 0
	for i, c := range s {
		switch c {
		case '(':
			d++
		case ')':
			d--
			if d == 0 && i != len(s)-1 {
				return false
			}
			if d < 0 {
				return false
			}
		case ' ':
			if d == 0 {
				return false
			}
		}
	}
	return d == 0
}

func implies(a, b string) string {
	if a == "true" {
		return b
	}
	if b == "true" {
		return "true"
	}
	return sx("=>", a, b)
}

func eq(a, b string) string {
	if a == b {
		return "true"
	}
	return sx("=", a, b)
}

func ite(c, a, b string) string {
	if c == "true" {
		return a
	}
	if c == "false" {
		return b
	}
	if a == b {
		return a
	}
	return sx("ite", c, a, b)
}

func intLit(n int64) string {
	if n < 0 {
		return fmt.Sprintf("(- %d)", -n)
	}
	return fmt.Sprintf("%d", n)
}

func isIntLit(s string) (int64, bool) {
	var n int64
	if _, err := fmt.Sscanf(s, "%d", &n); err == nil && fmt.Sprintf("%d", n) == s {
		return n, true
	}
	var m int64
	if strings.HasPrefix(s, "(- ") && strings.HasSuffix(s, ")") {
		if _, err := fmt.Sscanf(s[3:len(s)-1], "%d", &m); err == nil && fmt.Sprintf("%d", m) == s[3:len(s)-1] {
			return -m, true
		}
	}
	return 0, false
}

func add(a, b string) string {
	x, ok1 := isIntLit(a)
	y, ok2 := isIntLit(b)
	if ok1 && ok2 {
		return intLit(x + y)
	}
	if ok1 && x == 0 {
		return b
	}
	if ok2 && y == 0 {
		return a
	}
	return sx("+", a, b)
}

func sub(a, b string) string {
	x, ok1 := isIntLit(a)
	y, ok2 := isIntLit(b)
	if ok1 && ok2 {
		return intLit(x - y)
	}
	if ok2 && y == 0 {
		return a
	}
	return sx("-", a, b)
}

// Decls keeps declarations in creation order.
type Decls struct {
	order []string
	text  map[string]string
	n     int
}

func newDecls() *Decls { return &Decls{text: map[string]string{}} }

func (d *Decls) declare(name, text string) {
	if _, ok := d.text[name]; ok {
		return
	}
	d.text[name] = text
	d.order = append(d.order, name)
}

func (d *Decls) fresh(base, sort string) string {
	d.n++
	name := fmt.Sprintf("%s!%d", sanitize(base), d.n)
	d.declare(name, fmt.Sprintf("(declare-fun %s () %s)", name, sort))
	return name
}

func (d *Decls) dump() string {
	var b strings.Builder
	for _, n := range d.order {
		b.WriteString(d.text[n])
		b.WriteString("\n")
	}
	return b.String()
}

func sanitize(s string) string {
	var b strings.Builder
	for _, c := range s {
		if c >= 'a' && c <= 'z' || c >= 'A' && c <= 'Z' || c >= '0' && c <= '9' || c == '_' {
			b.WriteRune(c)
		} else {
			b.WriteRune('_')
		}
	}
	if b.Len() == 0 {
		return "v"
	}
	return b.String()
}

func sortedKeys[V any](m map[string]V) []string {
	ks := make([]string, 0, len(m))
	for k := range m {
		ks = append(ks, k)
	}
	sort.Strings(ks)
	return ks
}

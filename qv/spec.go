package main

import (
	"fmt"
	"go/ast"
	"go/parser"
	"go/token"
	"go/types"
	"path"
	"regexp"
	"sort"
	"strconv"
	"strings"

	"golang.org/x/tools/go/packages"
)

// ---------------------------------------------------------------------------------------------
// Units (functions, methods, function literals) and their contracts
// ---------------------------------------------------------------------------------------------

type ghostParam struct{ Name, Sort string }

type Clause struct {
	Expr  ast.Expr
	Text  string
	Tags  []string // property ids
	Where string   // spec file:line
	Uses  []string // lemmas / axioms made available for this clause only ("... @uses a, b")
	Ghost bool     // ("... @ghost") a postcondition of a function-type contract about ghost state only: the ghost step is
	// performed by the protocol, so implementers assume it at exit (after the ghost is advanced) instead of proving it
	Early bool     // ("have ... @early") an intermediate fact established before the tensors allocated in this call are published
	Opt   string   // optional postcondition group ("... @opt name"): assumed only by callers that declare "wants name"
}

type LoopSpec struct {
	Inv  []Clause
	Decr []Clause
	Hint []Clause // proved, then assumed, at the start of every iteration (introduces terms the solver needs)
	Mod  []string // extra modified names (ghost)
}

type Unit struct {
	Name     string // short-pkg.Func | short-pkg.Recv.Method | parent#N
	Short    string // package short name
	Pkg      *packages.Package
	Decl     *ast.FuncDecl
	Lit      *ast.FuncLit
	Parent   *Unit
	Sig      *types.Signature
	Recv     *types.Var
	Body     *ast.BlockStmt
	HasSpec  bool
	Requires []Clause
	Ensures  []Clause
	Loops    map[int]*LoopSpec
	Modifies []string
	Takes    map[string]bool // slice parameters whose ownership is transferred (must not be CALLER-owned)
	Public   bool            // public entry point: slice parameters are CALLER-owned
	Assumed  string          // non-empty: contract is trusted, body not verified (reason)
	Bounded  string          // non-empty: contract checked by a bounded stand-in only (description)
	Abstract bool            // no body (interface / function-type contract)
	Params   []specParam     // for abstract units
	Results  []specParam
	Lits     []*Unit // function literals directly inside, in source order
	Captured []*types.Var
	Where    string
	Props    map[string]bool
	Ghost    []ghostStmt
	Returns  string // "fresh" (default) or "alias"
	Domain   []Clause // assumed at entry, never checked: the domain the property quantifies over
	Defined  []Clause // definedness preconditions (finite results): obligations of kind "def" at call sites
	Source   string   // escaping closure: captured variable that is the source tensor of the back edge
	Target   string   // escaping closure: captured variable that is the target tensor of the back edge
	Implements string // abstract (function-type) contract this closure must satisfy
	Uses     []string // lemmas assumed in this unit (each is proved separately)
	Have     []Clause          // intermediate facts over the locals at a return, proved in order and then assumed
	Wants    map[string]bool   // optional postcondition groups of callees this unit asks for
	Witness  map[string]string // existsT variable -> spec expression (over locals at return) that instantiates it in proofs
	Invariant []Clause // escaping closure with private captured state: holds whenever the closure is not running (assumed at
	// entry, proved at exit and where the closure is created)
	Yields    []Clause // definitions of ghost functions of this closure's function value "self" (assumed at creation and at entry)
	GhostParams []ghostParam          // ghost parameters (spec-only values the caller supplies with "callghost")
	CallGhost   map[string]map[string]string // callee (short function name) -> ghost parameter -> spec expression over this unit's state at the call
	Unpublished map[string]bool // T-typed parameters / receiver that may be half-built (allocated by the caller, not yet returned)
	UsesDef  []string // lemmas / axioms made available only to the definedness obligations of this unit
	Trusted  []Clause // postconditions assumed at call sites but not proved from the body (paper lemmas); always reported
}

type specParam struct {
	Name string
	Type types.Type
}

type ghostStmt struct {
	Kind string // "assert" | "assume"
	At   string // "entry" | "loop N body" ...
	C    Clause
}

type Macro struct {
	Name   string
	Params []string
	Sorts  []string // non-nil: a named predicate (uninterpreted, with a defining axiom) rather than an inlined macro
	Body   ast.Expr
	Text   string
}

type Axiom struct {
	Name  string
	C     Clause
	Short string
	Lemma bool // proved once per run from the domain axioms (pseudo-unit lemma.<name>), then available via "uses"
	// Induct: the statement is forall lo, hi: lo <= hi => Body(lo, hi) for the named two-parameter macro Body; it is
	// closed by induction on hi - lo: qv proves Body(hi, hi) and Body(lo+1, hi) => Body(lo, hi) for lo < hi.
	Induct string
}

type Program struct {
	Fset    *token.FileSet
	Pkgs    []*packages.Package
	Units   map[string]*Unit
	ByObj   map[types.Object]*Unit
	ByLit   map[*ast.FuncLit]*Unit
	Macros  map[string]*Macro
	Axioms  []Axiom
	World   *World
	SpecErr []string
}

func shortName(pkgPath string) string {
	b := path.Base(pkgPath)
	if strings.HasSuffix(pkgPath, "tensor/internal/tensor") {
		return "itensor"
	}
	return b
}

func loadProgram(dir string, overlay map[string][]byte) (*Program, error) {
	fset := token.NewFileSet()
	cfg := &packages.Config{
		Mode: packages.NeedName | packages.NeedSyntax | packages.NeedTypes | packages.NeedTypesInfo |
			packages.NeedFiles | packages.NeedImports | packages.NeedDeps | packages.NeedCompiledGoFiles,
		Dir:        dir,
		Fset:       fset,
		BuildFlags: []string{"-tags=verif"},
		Overlay:    overlay,
		ParseFile: func(fset *token.FileSet, filename string, src []byte) (*ast.File, error) {
			return parser.ParseFile(fset, filename, src, parser.ParseComments|parser.SkipObjectResolution)
		},
		Env: append(envBase(), "GOFLAGS=-mod=mod", "GOPROXY=off", "GOSUMDB=off", "GOTOOLCHAIN=local"),
	}
	pkgs, err := packages.Load(cfg, "./...")
	if err != nil {
		return nil, err
	}
	p := &Program{Fset: fset, Units: map[string]*Unit{}, ByObj: map[types.Object]*Unit{}, ByLit: map[*ast.FuncLit]*Unit{}, Macros: map[string]*Macro{}, World: newWorld()}
	for _, pkg := range pkgs {
		if len(pkg.Errors) > 0 {
			return nil, fmt.Errorf("package %s: %v", pkg.PkgPath, pkg.Errors[0])
		}
		if strings.Contains(pkg.PkgPath, "tensor_test") {
			continue
		}
		p.Pkgs = append(p.Pkgs, pkg)
	}
	sort.Slice(p.Pkgs, func(i, j int) bool { return p.Pkgs[i].PkgPath < p.Pkgs[j].PkgPath })
	for _, pkg := range p.Pkgs {
		p.collectUnits(pkg)
	}
	for _, pkg := range p.Pkgs {
		p.parseSpecs(pkg)
	}
	return p, nil
}

func (p *Program) collectUnits(pkg *packages.Package) {
	short := shortName(pkg.PkgPath)
	for _, f := range pkg.Syntax {
		for _, d := range f.Decls {
			fd, ok := d.(*ast.FuncDecl)
			if !ok || fd.Body == nil {
				continue
			}
			obj := pkg.TypesInfo.Defs[fd.Name].(*types.Func)
			sig := obj.Type().(*types.Signature)
			name := short + "." + fd.Name.Name
			if sig.Recv() != nil {
				name = short + "." + typeName(sig.Recv().Type()) + "." + fd.Name.Name
			}
			u := &Unit{Name: name, Short: short, Pkg: pkg, Decl: fd, Sig: sig, Recv: sig.Recv(), Body: fd.Body, Loops: map[int]*LoopSpec{}, Takes: map[string]bool{}, Props: map[string]bool{}}
			p.Units[name] = u
			p.ByObj[obj] = u
			p.collectLits(u, fd.Body)
		}
	}
}

// collectLits registers the function literals directly nested in u (not those nested in other literals).
func (p *Program) collectLits(u *Unit, body ast.Node) {
	ast.Inspect(body, func(n ast.Node) bool {
		lit, ok := n.(*ast.FuncLit)
		if !ok {
			return true
		}
		sig := u.Pkg.TypesInfo.Types[lit].Type.(*types.Signature)
		c := &Unit{Name: fmt.Sprintf("%s#%d", u.Name, len(u.Lits)), Short: u.Short, Pkg: u.Pkg, Lit: lit, Parent: u, Sig: sig, Body: lit.Body, Loops: map[int]*LoopSpec{}, Takes: map[string]bool{}, Props: map[string]bool{}}
		u.Lits = append(u.Lits, c)
		p.Units[c.Name] = c
		p.ByLit[lit] = c
		p.collectLits(c, lit.Body)
		return false
	})
}

var clauseRe = regexp.MustCompile(`^(requires|ensures|modifies|loop|takes|public|assumed|bounded|returns|ghostparam|callghost|ghost|props|domain|defined|source|target|implements|uses|trusted|witness|wants|have|usesdef|unpublished|invariant|yields)\b(\[[A-Z0-9,]+\])?\s*(.*)$`)

func (p *Program) specErr(where, msg string) {
	p.SpecErr = append(p.SpecErr, where+": "+msg)
}

func (p *Program) parseSpecs(pkg *packages.Package) {
	short := shortName(pkg.PkgPath)
	for _, f := range pkg.Syntax {
		fname := p.Fset.Position(f.Pos()).Filename
		if !strings.HasSuffix(fname, "_verif.go") {
			continue
		}
		// gather //@ lines
		type line struct {
			text  string
			where string
		}
		var lines []line
		for _, cg := range f.Comments {
			for _, c := range cg.List {
				if !strings.HasPrefix(c.Text, "//@") {
					continue
				}
				pos := p.Fset.Position(c.Pos())
				lines = append(lines, line{strings.TrimRight(c.Text[3:], " \t"), fmt.Sprintf("%s:%d", path.Base(pos.Filename), pos.Line)})
			}
		}
		// join continuation lines (a line whose first token is not a keyword continues the previous one)
		var joined []line
		for _, l := range lines {
			t := strings.TrimSpace(l.text)
			if t == "" {
				continue
			}
			first := strings.Fields(t)[0]
			first = strings.SplitN(first, "[", 2)[0]
			switch first {
			case "func", "closure", "abstract", "requires", "ensures", "modifies", "loop", "takes", "public", "assumed", "bounded", "define", "axiom", "returns", "ghost", "props", "domain", "defined", "source", "target", "implements", "uses", "lemma", "predicate", "trusted", "witness", "wants", "have", "usesdef", "induct", "unpublished", "invariant", "yields", "ghostparam", "callghost":
				joined = append(joined, line{t, l.where})
			default:
				if len(joined) == 0 {
					p.specErr(l.where, "continuation without clause")
					continue
				}
				joined[len(joined)-1].text += " " + t
			}
		}
		var cur *Unit
		for _, l := range joined {
			t := l.text
			switch {
			case strings.HasPrefix(t, "func "):
				name := short + "." + strings.TrimSpace(t[5:])
				u, ok := p.Units[name]
				if !ok {
					p.specErr(l.where, "no such function: "+name)
					cur = nil
					continue
				}
				u.HasSpec = true
				u.Where = l.where
				cur = u
			case strings.HasPrefix(t, "abstract "):
				// abstract Name(p1 T1, p2 T2) (r1 R1, ...)
				u, err := p.parseAbstract(pkg, short, strings.TrimSpace(t[9:]))
				if err != nil {
					p.specErr(l.where, err.Error())
					cur = nil
					continue
				}
				u.Where = l.where
				cur = u
			case strings.HasPrefix(t, "predicate "):
				m, err := parseMacro(strings.TrimSpace(t[10:]))
				if err != nil {
					p.specErr(l.where, err.Error())
					continue
				}
				m.Sorts = []string{}
				for i, prm := range m.Params {
					fs := strings.Fields(prm)
					if len(fs) != 2 {
						p.specErr(l.where, "predicate parameters need 'name Sort'")
						continue
					}
					m.Params[i] = fs[0]
					srt := fs[1]
					if srt == "Idx" {
						srt = idxSort
					}
					if srt == "DArr" {
						srt = "(Array Int Data)"
					}
					if srt == "RArr" {
						srt = "(Array Int Range)"
					}
					m.Sorts = append(m.Sorts, srt)
				}
				p.Macros[m.Name] = m
			case strings.HasPrefix(t, "define "):
				m, err := parseMacro(strings.TrimSpace(t[7:]))
				if err != nil {
					p.specErr(l.where, err.Error())
					continue
				}
				p.Macros[m.Name] = m
			case strings.HasPrefix(t, "induct "):
				rest := strings.TrimSpace(t[7:])
				var lemmaUses []string
				rest, lemmaUses = splitLemmaUses(rest)
				i := strings.Index(rest, ":")
				if i < 0 {
					p.specErr(l.where, "induct needs 'name: bodyMacro'")
					continue
				}
				body := strings.TrimSpace(rest[i+1:])
				src := fmt.Sprintf("forallI(lo, forallI(hi, imp(lo <= hi, %s(lo, hi))))", body)
				if strings.HasPrefix(body, "upfix ") {
					// induct name: upfix Body - as "up", with the body's leading quantified variables fixed through the step
					body = strings.TrimSpace(body[6:])
					src = fmt.Sprintf("forallI(k, imp(0 <= k, %s(k)))", body)
					body = "upfix " + body
				} else if strings.HasPrefix(body, "up ") {
					// induct name: up Body  - one-parameter body, induction upwards from 0
					body = strings.TrimSpace(body[3:])
					src = fmt.Sprintf("forallI(k, imp(0 <= k, %s(k)))", body)
					body = "up " + body
				}
				e, err := parser.ParseExpr(src)
				if err != nil {
					p.specErr(l.where, "induct: "+err.Error())
					continue
				}
				p.Axioms = append(p.Axioms, Axiom{Name: strings.TrimSpace(rest[:i]), C: Clause{Expr: e, Text: src, Where: l.where, Uses: lemmaUses}, Short: short, Lemma: true, Induct: body})
			case strings.HasPrefix(t, "axiom "), strings.HasPrefix(t, "lemma "):
				rest := strings.TrimSpace(t[6:])
				var lemmaUses []string
				rest, lemmaUses = splitLemmaUses(rest)
				i := strings.Index(rest, ":")
				if i < 0 {
					p.specErr(l.where, "axiom needs 'name: expr'")
					continue
				}
				e, err := parser.ParseExpr(rest[i+1:])
				if err != nil {
					p.specErr(l.where, "axiom: "+err.Error())
					continue
				}
				p.Axioms = append(p.Axioms, Axiom{Name: strings.TrimSpace(rest[:i]), C: Clause{Expr: e, Text: strings.TrimSpace(rest[i+1:]), Where: l.where, Uses: lemmaUses}, Short: short, Lemma: strings.HasPrefix(t, "lemma ")})
			default:
				if cur == nil {
					p.specErr(l.where, "clause outside of a func: "+t)
					continue
				}
				m := clauseRe.FindStringSubmatch(t)
				if m == nil {
					p.specErr(l.where, "cannot parse clause: "+t)
					continue
				}
				var tags []string
				if m[2] != "" {
					tags = strings.Split(strings.Trim(m[2], "[]"), ",")
					for _, tg := range tags {
						cur.Props[tg] = true
					}
				}
				rest := strings.TrimSpace(m[3])
				var mk0 func(src string) (Clause, bool)
				mk := func(src string) (Clause, bool) {
					var uses []string
					opt := ""
					ghost := false
					early := false
					if i := strings.Index(src, "@early"); i >= 0 {
						early = true
						src = strings.TrimSpace(src[:i]) + " " + strings.TrimSpace(src[i+6:])
					}
					if i := strings.Index(src, "@ghost"); i >= 0 {
						ghost = true
						src = strings.TrimSpace(src[:i]) + " " + strings.TrimSpace(src[i+6:])
					}
					if i := strings.Index(src, "@opt"); i >= 0 {
						rest := strings.TrimSpace(src[i+4:])
						fs := strings.Fields(rest)
						if len(fs) > 0 {
							opt = fs[0]
							rest = strings.TrimSpace(strings.TrimPrefix(rest, fs[0]))
						}
						src = strings.TrimSpace(src[:i]) + " " + rest
					}
					if i := strings.Index(src, "@uses"); i >= 0 {
						for _, x := range strings.Split(src[i+5:], ",") {
							uses = append(uses, strings.TrimSpace(x))
						}
						src = strings.TrimSpace(src[:i])
					}
					c, ok := mk0(src)
					c.Uses = uses
					c.Opt = opt
					c.Ghost = ghost
					c.Early = early
					return c, ok
				}
				_ = mk
				mk0 = func(src string) (Clause, bool) {
					e, err := parser.ParseExpr(src)
					if err != nil {
						p.specErr(l.where, fmt.Sprintf("%v in %q", err, src))
						return Clause{}, false
					}
					return Clause{Expr: e, Text: src, Tags: tags, Where: l.where}, true
				}
				switch m[1] {
				case "requires":
					if c, ok := mk(rest); ok {
						cur.Requires = append(cur.Requires, c)
					}
				case "ensures":
					if c, ok := mk(rest); ok {
						cur.Ensures = append(cur.Ensures, c)
					}
				case "domain":
					if c, ok := mk(rest); ok {
						cur.Domain = append(cur.Domain, c)
					}
				case "trusted":
					if c, ok := mk(rest); ok {
						cur.Trusted = append(cur.Trusted, c)
					}
				case "defined":
					if c, ok := mk(rest); ok {
						cur.Defined = append(cur.Defined, c)
					}
				case "source":
					cur.Source = rest
				case "target":
					cur.Target = rest
				case "witness":
					fs := strings.SplitN(rest, "=", 2)
					if len(fs) == 2 {
						if cur.Witness == nil {
							cur.Witness = map[string]string{}
						}
						cur.Witness[strings.TrimSpace(fs[0])] = strings.TrimSpace(fs[1])
					}
				case "invariant":
					if c, ok := mk(rest); ok {
						cur.Invariant = append(cur.Invariant, c)
					}
				case "yields":
					if c, ok := mk(rest); ok {
						cur.Yields = append(cur.Yields, c)
					}
				case "ghostparam":
					// ghostparam S Idx, n Int
					for _, x := range strings.Split(rest, ",") {
						fs := strings.Fields(x)
						if len(fs) != 2 {
							p.specErr(l.where, "ghostparam needs 'name Sort'")
							continue
						}
						srt := fs[1]
						if srt == "Idx" {
							srt = idxSort
						}
						cur.GhostParams = append(cur.GhostParams, ghostParam{fs[0], srt})
					}
				case "callghost":
					// callghost callee: S = expr; n = expr
					i := strings.Index(rest, ":")
					if i < 0 {
						p.specErr(l.where, "callghost needs 'callee: name = expr; ...'")
						continue
					}
					callee := strings.TrimSpace(rest[:i])
					if cur.CallGhost == nil {
						cur.CallGhost = map[string]map[string]string{}
					}
					if cur.CallGhost[callee] == nil {
						cur.CallGhost[callee] = map[string]string{}
					}
					for _, x := range strings.Split(rest[i+1:], ";") {
						j := strings.Index(x, "=")
						if j < 0 {
							continue
						}
						cur.CallGhost[callee][strings.TrimSpace(x[:j])] = strings.TrimSpace(x[j+1:])
					}
				case "unpublished":
					if cur.Unpublished == nil {
						cur.Unpublished = map[string]bool{}
					}
					for _, x := range strings.Split(rest, ",") {
						cur.Unpublished[strings.TrimSpace(x)] = true
					}
				case "usesdef":
					for _, x := range strings.Split(rest, ",") {
						cur.UsesDef = append(cur.UsesDef, strings.TrimSpace(x))
					}
				case "have":
					if c, ok := mk(rest); ok {
						cur.Have = append(cur.Have, c)
					}
				case "wants":
					if cur.Wants == nil {
						cur.Wants = map[string]bool{}
					}
					for _, x := range strings.Split(rest, ",") {
						cur.Wants[strings.TrimSpace(x)] = true
					}
				case "implements":
					cur.Implements = rest
				case "uses":
					for _, x := range strings.Split(rest, ",") {
						cur.Uses = append(cur.Uses, strings.TrimSpace(x))
					}
				case "modifies":
					for _, x := range strings.Split(rest, ",") {
						x = strings.TrimSpace(x)
						if x != "" && x != "nothing" {
							cur.Modifies = append(cur.Modifies, x)
						}
					}
				case "takes":
					for _, x := range strings.Split(rest, ",") {
						cur.Takes[strings.TrimSpace(x)] = true
					}
				case "public":
					cur.Public = true
				case "assumed":
					cur.Assumed = rest
					if rest == "" {
						cur.Assumed = "trusted"
					}
				case "bounded":
					cur.Bounded = rest
				case "returns":
					cur.Returns = rest
				case "props":
					for _, x := range strings.Split(rest, ",") {
						cur.Props[strings.TrimSpace(x)] = true
					}
				case "ghost":
					// ghost assert <expr> | ghost assume <expr>  (at function entry)
					fs := strings.SplitN(rest, " ", 2)
					if len(fs) == 2 {
						if c, ok := mk(fs[1]); ok {
							cur.Ghost = append(cur.Ghost, ghostStmt{Kind: fs[0], At: "entry", C: c})
						}
					}
				case "loop":
					fs := strings.SplitN(rest, " ", 3)
					if len(fs) < 3 {
						p.specErr(l.where, "loop clause needs 'loop N invariant|decreases|modifies expr'")
						continue
					}
					n, err := strconv.Atoi(fs[0])
					if err != nil {
						p.specErr(l.where, "bad loop ordinal")
						continue
					}
					ls := cur.Loops[n]
					if ls == nil {
						ls = &LoopSpec{}
						cur.Loops[n] = ls
					}
					switch fs[1] {
					case "invariant":
						if c, ok := mk(fs[2]); ok {
							ls.Inv = append(ls.Inv, c)
						}
					case "decreases":
						if c, ok := mk(fs[2]); ok {
							ls.Decr = append(ls.Decr, c)
						}
					case "hint":
						if c, ok := mk(fs[2]); ok {
							ls.Hint = append(ls.Hint, c)
						}
					case "modifies":
						for _, x := range strings.Split(fs[2], ",") {
							ls.Mod = append(ls.Mod, strings.TrimSpace(x))
						}
					default:
						p.specErr(l.where, "unknown loop clause "+fs[1])
					}
				}
			}
		}
	}
}

// parseAbstract parses "Name(p T, ...) (r R, ...)" using Go syntax with the package's scope for the types.
func (p *Program) parseAbstract(pkg *packages.Package, short, decl string) (*Unit, error) {
	i := strings.Index(decl, "(")
	if i < 0 {
		return nil, fmt.Errorf("abstract: missing parameter list")
	}
	name := strings.TrimSpace(decl[:i])
	src := "func" + decl[i:]
	e, err := parser.ParseExpr(src)
	if err != nil {
		return nil, fmt.Errorf("abstract %s: %v", name, err)
	}
	ft := e.(*ast.FuncType)
	u := &Unit{Name: short + "." + name, Short: short, Pkg: pkg, Abstract: true, HasSpec: true, Loops: map[int]*LoopSpec{}, Takes: map[string]bool{}, Props: map[string]bool{}, Assumed: "abstract contract (interface or function type)"}
	conv := func(fl *ast.FieldList) ([]specParam, error) {
		var out []specParam
		if fl == nil {
			return out, nil
		}
		for _, f := range fl.List {
			tv, err := p.evalType(pkg, f.Type)
			if err != nil {
				return nil, fmt.Errorf("abstract %s: type %s: %v", name, types.ExprString(f.Type), err)
			}
			if len(f.Names) == 0 {
				out = append(out, specParam{Name: "_", Type: tv.Type})
			}
			for _, n := range f.Names {
				out = append(out, specParam{Name: n.Name, Type: tv.Type})
			}
		}
		return out, nil
	}
	if u.Params, err = conv(ft.Params); err != nil {
		return nil, err
	}
	if u.Results, err = conv(ft.Results); err != nil {
		return nil, err
	}
	p.Units[u.Name] = u
	return u, nil
}

// evalType resolves a type expression in the scope of pkg, including qualified names of imported packages.
func (p *Program) evalType(pkg *packages.Package, e ast.Expr) (types.TypeAndValue, error) {
	switch x := e.(type) {
	case *ast.SelectorExpr:
		if id, ok := x.X.(*ast.Ident); ok {
			for _, imp := range pkg.Types.Imports() {
				if imp.Name() == id.Name {
					if obj := imp.Scope().Lookup(x.Sel.Name); obj != nil {
						return types.TypeAndValue{Type: obj.Type()}, nil
					}
				}
			}
		}
	case *ast.ArrayType:
		if x.Len == nil {
			tv, err := p.evalType(pkg, x.Elt)
			if err != nil {
				return tv, err
			}
			return types.TypeAndValue{Type: types.NewSlice(tv.Type)}, nil
		}
	case *ast.StarExpr:
		tv, err := p.evalType(pkg, x.X)
		if err != nil {
			return tv, err
		}
		return types.TypeAndValue{Type: types.NewPointer(tv.Type)}, nil
	}
	return types.Eval(p.Fset, pkg.Types, token.NoPos, types.ExprString(e))
}

func parseMacro(s string) (*Macro, error) {
	i := strings.Index(s, ":=")
	if i < 0 {
		return nil, fmt.Errorf("define needs ':='")
	}
	head := strings.TrimSpace(s[:i])
	body := strings.TrimSpace(s[i+2:])
	j := strings.Index(head, "(")
	if j < 0 || !strings.HasSuffix(head, ")") {
		return nil, fmt.Errorf("define needs name(params)")
	}
	m := &Macro{Name: strings.TrimSpace(head[:j]), Text: body}
	for _, x := range strings.Split(head[j+1:len(head)-1], ",") {
		x = strings.TrimSpace(x)
		if x != "" {
			m.Params = append(m.Params, x)
		}
	}
	e, err := parser.ParseExpr(body)
	if err != nil {
		return nil, fmt.Errorf("define %s: %v", m.Name, err)
	}
	m.Body = e
	return m, nil
}

// splitLemmaUses cuts a trailing "@uses a, b" off a lemma / induct clause.
func splitLemmaUses(rest string) (string, []string) {
	i := strings.LastIndex(rest, "@uses ")
	if i < 0 {
		return rest, nil
	}
	var names []string
	for _, n := range strings.Split(rest[i+6:], ",") {
		if n = strings.TrimSpace(n); n != "" {
			names = append(names, n)
		}
	}
	return strings.TrimSpace(rest[:i]), names
}

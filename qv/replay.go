package main

import (
	"context"
	"encoding/json"
	"fmt"
	"go/types"
	"os"
	"os/exec"
	"path/filepath"
	"regexp"
	"strconv"
	"strings"
	"time"
)

// ---------------------------------------------------------------------------------------------
// Replay of solver models against the real code
// ---------------------------------------------------------------------------------------------
//
// When a solver returns `sat` for a failed obligation of a package-level function whose parameters are ints, bools,
// float64s, []int and []tensor.Range, the model's input values are turned into an in-package Go test (injected with
// -overlay, nothing is written to the repository), the function is called on them, and
//   - a panic is a confirmed failure (every function under contract is total on its precondition), and
//   - for a failed postcondition the observed results are put back into the postcondition, which is then decided on
//     those concrete values by the solver: `unsat` means the real code returned values the contract forbids.
// Anything else leaves the violation unconfirmed ("no-failing-input-found").

const replayMaxLen = 8

func contextBackground() context.Context { return context.Background() }

func realLitF(x float64) string {
	s := strconv.FormatFloat(x, 'f', -1, 64)
	if !strings.Contains(s, ".") {
		s += ".0"
	}
	if strings.HasPrefix(s, "-") {
		return "(- " + s[1:] + ")"
	}
	return s
}

type replayParam struct {
	name  string
	typ   types.Type
	kind  string // int | bool | float | ints | ranges
	goLit string
	val   Val // concrete value for the re-check
}

func replayKind(t types.Type) string {
	switch u := types.Unalias(t).Underlying().(type) {
	case *types.Basic:
		switch {
		case u.Info()&types.IsInteger != 0:
			return "int"
		case u.Info()&types.IsBoolean != 0:
			return "bool"
		case u.Info()&types.IsFloat != 0:
			return "float"
		}
	case *types.Slice:
		switch e := types.Unalias(u.Elem()).Underlying().(type) {
		case *types.Basic:
			if e.Info()&types.IsInteger != 0 {
				return "ints"
			}
		case *types.Struct:
			if n, ok := types.Unalias(u.Elem()).(*types.Named); ok && n.Obj().Name() == "Range" && e.NumFields() == 2 {
				return "ranges"
			}
		}
	case *types.Interface:
		if n, ok := types.Unalias(t).(*types.Named); ok && n.Obj().Name() == "error" && n.Obj().Pkg() == nil {
			return "error"
		}
	}
	return ""
}

// parseModel reads the `((term value) (term value) ...)` answer of get-value.
func parseModel(out string) map[string]string {
	m := map[string]string{}
	i := strings.Index(out, "((")
	if i < 0 {
		return m
	}
	s := out[i+1:]
	// top-level pairs
	depth := 0
	start := -1
	for k := 0; k < len(s); k++ {
		switch s[k] {
		case '(':
			if depth == 0 {
				start = k
			}
			depth++
		case ')':
			depth--
			if depth == 0 && start >= 0 {
				pair := s[start+1 : k]
				// split the pair into term and value: the term is the first balanced s-expression
				t, v := splitFirstSexp(strings.TrimSpace(pair))
				if t != "" {
					m[t] = strings.TrimSpace(v)
				}
				start = -1
			}
			if depth < 0 {
				return m
			}
		}
	}
	return m
}

func splitFirstSexp(s string) (string, string) {
	if s == "" {
		return "", ""
	}
	if s[0] != '(' {
		i := strings.IndexAny(s, " \n\t")
		if i < 0 {
			return s, ""
		}
		return s[:i], s[i+1:]
	}
	depth := 0
	for k := 0; k < len(s); k++ {
		switch s[k] {
		case '(':
			depth++
		case ')':
			depth--
			if depth == 0 {
				return s[:k+1], s[k+1:]
			}
		}
	}
	return "", ""
}

var wsRe = regexp.MustCompile(`\s+`)

func normTerm(t string) string { return wsRe.ReplaceAllString(strings.TrimSpace(t), " ") }

func smtInt(v string) (int64, bool) {
	v = normTerm(v)
	if strings.HasPrefix(v, "(- ") && strings.HasSuffix(v, ")") {
		n, ok := smtInt(v[3 : len(v)-1])
		return -n, ok
	}
	n, err := strconv.ParseInt(v, 10, 64)
	return n, err == nil
}

func smtReal(v string) (float64, bool) {
	v = normTerm(v)
	if strings.HasPrefix(v, "(- ") && strings.HasSuffix(v, ")") {
		x, ok := smtReal(v[3 : len(v)-1])
		return -x, ok
	}
	if strings.HasPrefix(v, "(/ ") && strings.HasSuffix(v, ")") {
		fs := strings.Fields(v[3 : len(v)-1])
		if len(fs) == 2 {
			a, ok1 := smtReal(fs[0])
			b, ok2 := smtReal(fs[1])
			if ok1 && ok2 && b != 0 {
				return a / b, true
			}
		}
		return 0, false
	}
	x, err := strconv.ParseFloat(v, 64)
	return x, err == nil
}

// replayTerms: the extra terms a model query needs so that slice parameters can be rebuilt.
func (o *Obligation) replayTerms() []string {
	var ts []string
	for _, k := range sortedKeys(o.Vars) {
		if !strings.HasPrefix(k, "arr(") {
			continue
		}
		name := strings.TrimSuffix(strings.TrimPrefix(k, "arr("), ")")
		arr, off, es := o.Vars[k], o.Vars["off("+name+")"], o.Vars["elem("+name+")"]
		if arr == "" || off == "" {
			continue
		}
		for i := 0; i < replayMaxLen; i++ {
			el := sx("select", arr, add(off, strconv.Itoa(i)))
			switch es {
			case "Int":
				ts = append(ts, el)
			case "Range":
				ts = append(ts, sx("From", el), sx("To", el))
			}
		}
	}
	return ts
}

func replayModel(a *AggOutcome, repo string) (string, bool) {
	o := a.Witness
	if o == nil || o.run == nil {
		return "", false
	}
	r := o.run
	u := r.unit
	if u.Lit != nil || u.Recv != nil || u.Body == nil || u.Sig == nil || u.Pkg == nil {
		return "", false
	}
	model := map[string]string{}
	for t, v := range parseModel(a.Model) {
		model[normTerm(t)] = v
	}
	get := func(term string) (string, bool) {
		v, ok := model[normTerm(term)]
		return v, ok
	}
	qual := func(p *types.Package) string {
		if p == u.Pkg.Types {
			return ""
		}
		return p.Name()
	}
	imports := map[string]string{}
	var params []replayParam
	for i := 0; i < u.Sig.Params().Len(); i++ {
		pv := u.Sig.Params().At(i)
		rp := replayParam{name: pv.Name(), typ: pv.Type(), kind: replayKind(pv.Type())}
		tstr := types.TypeString(pv.Type(), qual)
		switch rp.kind {
		case "int":
			v, ok := get(o.Vars[rp.name])
			n, ok2 := smtInt(v)
			if !ok || !ok2 {
				return "", false
			}
			rp.goLit = fmt.Sprintf("%s(%d)", tstr, n)
			rp.val = Val{K: KInt, T: intLit(n), Go: pv.Type()}
		case "bool":
			v, ok := get(o.Vars[rp.name])
			if !ok || (v != "true" && v != "false") {
				return "", false
			}
			rp.goLit = v
			rp.val = Val{K: KBool, T: v, Go: pv.Type()}
		case "float":
			v, ok := get(o.Vars[rp.name])
			x, ok2 := smtReal(v)
			if !ok || !ok2 {
				return "", false
			}
			rp.goLit = fmt.Sprintf("%s(%s)", tstr, strconv.FormatFloat(x, 'g', -1, 64))
			rp.val = Val{K: KReal, T: normTerm(v), Go: pv.Type()}
		case "ints", "ranges":
			lv, ok := get(o.Vars["len("+rp.name+")"])
			n, ok2 := smtInt(lv)
			if !ok || !ok2 || n < 0 || n > replayMaxLen {
				return "", false
			}
			arr, off := o.Vars["arr("+rp.name+")"], o.Vars["off("+rp.name+")"]
			sl := types.Unalias(pv.Type()).Underlying().(*types.Slice)
			if nm, ok := types.Unalias(sl.Elem()).(*types.Named); ok && nm.Obj().Pkg() != nil && nm.Obj().Pkg() != u.Pkg.Types {
				imports[nm.Obj().Pkg().Path()] = nm.Obj().Pkg().Name()
			}
			var lits []string
			es := "Int"
			arrTerm := "((as const (Array Int Int)) 0)"
			if rp.kind == "ranges" {
				es = "Range"
				arrTerm = "((as const (Array Int Range)) (mkRange 0 0))"
			}
			for k := int64(0); k < n; k++ {
				el := sx("select", arr, add(off, strconv.FormatInt(k, 10)))
				if rp.kind == "ints" {
					v, ok := get(el)
					x, ok2 := smtInt(v)
					if !ok || !ok2 {
						return "", false
					}
					lits = append(lits, strconv.FormatInt(x, 10))
					arrTerm = sx("store", arrTerm, intLit(k), intLit(x))
				} else {
					fv, ok := get(sx("From", el))
					tv, ok2 := get(sx("To", el))
					f, ok3 := smtInt(fv)
					t, ok4 := smtInt(tv)
					if !ok || !ok2 || !ok3 || !ok4 {
						return "", false
					}
					lits = append(lits, fmt.Sprintf("{From: %d, To: %d}", f, t))
					arrTerm = sx("store", arrTerm, intLit(k), sx("mkRange", intLit(f), intLit(t)))
				}
			}
			rp.goLit = fmt.Sprintf("%s{%s}", tstr, strings.Join(lits, ", "))
			rp.val = Val{K: KSlice, S: &SliceVal{Arr: arrTerm, Off: "0", Len: intLit(n), Elem: sl.Elem(), ESrt: es, Own: OwnLib}, Go: pv.Type()}
		default:
			return "", false
		}
		params = append(params, rp)
	}
	// results
	var resKinds []string
	for i := 0; i < u.Sig.Results().Len(); i++ {
		k := replayKind(u.Sig.Results().At(i).Type())
		if k == "" {
			return "", false
		}
		resKinds = append(resKinds, k)
	}
	fd := u.Name[strings.LastIndex(u.Name, ".")+1:]
	var src strings.Builder
	fmt.Fprintf(&src, "package %s\n\nimport (\n\t\"fmt\"\n\t\"testing\"\n", u.Pkg.Types.Name())
	for p, n := range imports {
		fmt.Fprintf(&src, "\t%s %q\n", n, p)
	}
	src.WriteString(")\n\nfunc TestQvReplay(t *testing.T) {\n\tdefer func() {\n\t\tif r := recover(); r != nil {\n\t\t\tfmt.Printf(\"QVREPLAY panic %v\\n\", r)\n\t\t}\n\t}()\n")
	var args []string
	for i, p := range params {
		fmt.Fprintf(&src, "\ta%d := %s\n", i, p.goLit)
		args = append(args, fmt.Sprintf("a%d", i))
	}
	var rs []string
	for i := range resKinds {
		rs = append(rs, fmt.Sprintf("r%d", i))
	}
	call := fmt.Sprintf("%s(%s)", fd, strings.Join(args, ", "))
	if len(rs) > 0 {
		fmt.Fprintf(&src, "\t%s := %s\n", strings.Join(rs, ", "), call)
	} else {
		fmt.Fprintf(&src, "\t%s\n", call)
	}
	for i, k := range resKinds {
		switch k {
		case "error":
			fmt.Fprintf(&src, "\tfmt.Printf(\"QVREPLAY r%d error %%t\\n\", r%d == nil)\n", i, i)
		case "ints":
			fmt.Fprintf(&src, "\tfmt.Printf(\"QVREPLAY r%d ints %%d\", len(r%d))\n\tfor _, x := range r%d {\n\t\tfmt.Printf(\" %%d\", x)\n\t}\n\tfmt.Println()\n", i, i, i)
		case "ranges":
			fmt.Fprintf(&src, "\tfmt.Printf(\"QVREPLAY r%d ranges %%d\", len(r%d))\n\tfor _, x := range r%d {\n\t\tfmt.Printf(\" %%d:%%d\", x.From, x.To)\n\t}\n\tfmt.Println()\n", i, i, i)
		case "float":
			fmt.Fprintf(&src, "\tfmt.Printf(\"QVREPLAY r%d float %%v\\n\", r%d)\n", i, i)
		default:
			fmt.Fprintf(&src, "\tfmt.Printf(\"QVREPLAY r%d %s %%v\\n\", r%d)\n", i, k, i)
		}
	}
	src.WriteString("\tfmt.Println(\"QVREPLAY returned\")\n}\n")

	// run it: in-package test through an overlay
	if len(u.Pkg.GoFiles) == 0 {
		return "", false
	}
	pkgDir := filepath.Dir(u.Pkg.GoFiles[0])
	tmp, err := os.MkdirTemp("", "qvreplay")
	if err != nil {
		return "", false
	}
	defer os.RemoveAll(tmp)
	testSrc := filepath.Join(tmp, "qv_replay_test.go")
	os.WriteFile(testSrc, []byte(src.String()), 0o644)
	ov, _ := json.Marshal(map[string]any{"Replace": map[string]string{filepath.Join(pkgDir, "qv_replay_test.go"): testSrc}})
	ovFile := filepath.Join(tmp, "overlay.json")
	os.WriteFile(ovFile, ov, 0o644)
	cmd := exec.Command("go", "test", "-overlay", ovFile, "-v", "-vet=off", "-count=1", "-timeout", "60s", "-run", "^TestQvReplay$", ".")
	cmd.Dir = pkgDir
	cmd.Env = append(os.Environ(), "GOFLAGS=-mod=mod", "GOPROXY=off", "GOSUMDB=off", "GOTOOLCHAIN=local")
	t0 := time.Now()
	outB, _ := cmd.CombinedOutput()
	out := string(outB)
	var tr strings.Builder
	fmt.Fprintf(&tr, "in-package test (go test -overlay, %.1fs) calling the real %s on the model's inputs:\n\n%s\n--- output ---\n", time.Since(t0).Seconds(), u.Name, src.String())
	var lines []string
	for _, l := range strings.Split(out, "\n") {
		if strings.HasPrefix(l, "QVREPLAY") {
			lines = append(lines, l)
			tr.WriteString(l + "\n")
		}
	}
	if len(lines) == 0 {
		tr.WriteString("(the replay produced no result)\n" + out)
		return tr.String(), false
	}
	for _, l := range lines {
		if strings.HasPrefix(l, "QVREPLAY panic") {
			tr.WriteString("\nCONFIRMED: the real code panics on an input that satisfies the precondition\n")
			return tr.String(), true
		}
	}
	if o.Kind != "post" {
		tr.WriteString("\nnot confirmed: the call returned normally and the failed obligation is not a postcondition\n")
		return tr.String(), false
	}
	idx, err := strconv.Atoi(o.Site)
	if err != nil || idx < 0 || idx >= len(u.Ensures) {
		return tr.String(), false
	}
	// concrete re-check of the failed postcondition on the observed results
	ok := func() (confirmed bool) {
		defer func() {
			if x := recover(); x != nil {
				fmt.Fprintf(&tr, "\nnot confirmed: the postcondition could not be evaluated on concrete values (%v)\n", x)
				confirmed = false
			}
		}()
		r2 := newUnitRun(r.prog, u)
		st := &State{u: r2, vars: map[types.Object]Val{}, names: map[string]types.Object{}, arrs: map[*Obj]string{}, heap: map[string]string{}, frozen: map[*Obj]bool{}, ghost: map[string]Val{}}
		bound := map[string]Val{}
		for i, p := range params {
			pv := u.Sig.Params().At(i)
			st.bind(pv, p.val)
			bound[p.name] = p.val
		}
		r2.entry = st.clone()
		for i, k := range resKinds {
			var line string
			for _, l := range lines {
				if strings.HasPrefix(l, fmt.Sprintf("QVREPLAY r%d ", i)) {
					line = strings.TrimPrefix(l, fmt.Sprintf("QVREPLAY r%d %s ", i, k))
				}
			}
			rv := u.Sig.Results().At(i)
			var v Val
			switch k {
			case "int":
				n, _ := strconv.ParseInt(strings.TrimSpace(line), 10, 64)
				v = Val{K: KInt, T: intLit(n), Go: rv.Type()}
			case "bool":
				v = Val{K: KBool, T: strings.TrimSpace(line), Go: rv.Type()}
			case "error":
				v = Val{K: KErr, T: strings.TrimSpace(line), Go: rv.Type()}
			case "float":
				x, err := strconv.ParseFloat(strings.TrimSpace(line), 64)
				if err != nil {
					panic("non-finite result")
				}
				v = Val{K: KReal, T: realLitF(x), Go: rv.Type()}
			case "ints", "ranges":
				fs := strings.Fields(line)
				if len(fs) == 0 {
					panic("no slice result")
				}
				n, _ := strconv.Atoi(fs[0])
				es, arrTerm := "Int", "((as const (Array Int Int)) 0)"
				if k == "ranges" {
					es, arrTerm = "Range", "((as const (Array Int Range)) (mkRange 0 0))"
				}
				for j := 0; j < n && j+1 < len(fs); j++ {
					if k == "ints" {
						x, _ := strconv.ParseInt(fs[j+1], 10, 64)
						arrTerm = sx("store", arrTerm, intLit(int64(j)), intLit(x))
					} else {
						ft := strings.SplitN(fs[j+1], ":", 2)
						f, _ := strconv.ParseInt(ft[0], 10, 64)
						t, _ := strconv.ParseInt(ft[1], 10, 64)
						arrTerm = sx("store", arrTerm, intLit(int64(j)), sx("mkRange", intLit(f), intLit(t)))
					}
				}
				sl := types.Unalias(rv.Type()).Underlying().(*types.Slice)
				v = Val{K: KSlice, S: &SliceVal{Arr: arrTerm, Off: "0", Len: intLit(int64(n)), Elem: sl.Elem(), ESrt: es, Own: OwnLib}, Go: rv.Type()}
			}
			name := rv.Name()
			if name == "" || name == "_" {
				name = fmt.Sprintf("res%d", i)
			}
			bound[name] = v
			bound[fmt.Sprintf("res%d", i)] = v
			if i == 0 {
				bound["res"] = v
			}
		}
		env := &SpecEnv{run: r2, st: st, old: r2.entry, bound: bound}
		c := u.Ensures[idx]
		if len(c.Uses) > 0 {
			r2.assumeNamed(st, c.Uses)
		}
		goal := r2.specBool(env, c, "replay of "+u.Name)
		// facts /\ post unsatisfiable  <=>  the observed values violate the postcondition
		o2 := &Obligation{Name: u.Name + ":replay", Unit: u.Name, Kind: "replay", Goal: not(goal), Facts: append([]string(nil), st.facts...), run: r2}
		text := o2.smt(false)
		f := filepath.Join(tmp, "recheck.smt2")
		os.WriteFile(f, []byte(text), 0o644)
		for _, b := range []string{"z3-new", "cvc5", "z3"} {
			so, _ := runSolver(contextBackground(), b, nil, f, 20*time.Second)
			switch firstLine(so) {
			case "unsat":
				fmt.Fprintf(&tr, "\nCONFIRMED: with these inputs and the results the real code returned, the postcondition\n    %s\nis false (decided on the concrete values by %s)\n", c.Text, b)
				return true
			case "sat":
				fmt.Fprintf(&tr, "\nnot confirmed: the values the real code returned satisfy the postcondition (%s); the solver's model relies on an abstraction (a callee's contract, a loop invariant) rather than on this execution\n", b)
				return false
			}
		}
		tr.WriteString("\nnot confirmed: the concrete re-check of the postcondition was not decided\n")
		return false
	}()
	return tr.String(), ok
}

// ---------------------------------------------------------------------------------------------
// Small-input search for a replay input
// ---------------------------------------------------------------------------------------------
//
// Most failed obligations of this code base carry quantifiers, so the solver answers `unknown` and there is no model to
// replay. For the integer-level functions (same class as above) the real function is then run on every small input
// (bounds below); on each input the function's preconditions and all of its postconditions are decided on the concrete
// values by the solver (one incremental script). The first input that satisfies the preconditions and either panics or
// violates a postcondition is the replay. This is a bounded search and is labelled so; it only ever runs for an
// obligation that has already failed, and never decides a property by itself.

type replayCase struct {
	lits []string // Go literals
	vals []Val
}

func replaySearch(a *AggOutcome, repo string) (string, bool) {
	o := a.Witness
	if o == nil || o.run == nil {
		return "", false
	}
	r := o.run
	u := r.unit
	if u.Lit != nil || u.Recv != nil || u.Body == nil || u.Sig == nil || u.Pkg == nil || len(u.Ensures) == 0 || len(u.Pkg.GoFiles) == 0 {
		return "", false
	}
	qual := func(p *types.Package) string {
		if p == u.Pkg.Types {
			return ""
		}
		return p.Name()
	}
	imports := map[string]string{}
	np := u.Sig.Params().Len()
	var kinds []string
	for i := 0; i < np; i++ {
		k := replayKind(u.Sig.Params().At(i).Type())
		if k == "" || k == "error" || k == "float" {
			return "", false
		}
		kinds = append(kinds, k)
	}
	var resKinds []string
	for i := 0; i < u.Sig.Results().Len(); i++ {
		k := replayKind(u.Sig.Results().At(i).Type())
		if k == "" || k == "float" {
			return "", false
		}
		resKinds = append(resKinds, k)
	}
	// candidate values per parameter
	ints := []int64{-1, 0, 1, 2, 3}
	maxLen := 2
	if np <= 2 {
		maxLen = 3
	}
	elemInts := []int64{0, 1, 2, 3}
	if np >= 3 {
		elemInts = []int64{0, 1, 2}
	}
	type cand struct {
		lit string
		val Val
	}
	var cands [][]cand
	for i := 0; i < np; i++ {
		pv := u.Sig.Params().At(i)
		tstr := types.TypeString(pv.Type(), qual)
		var cs []cand
		switch kinds[i] {
		case "int":
			for _, n := range ints {
				cs = append(cs, cand{fmt.Sprintf("%s(%d)", tstr, n), Val{K: KInt, T: intLit(n), Go: pv.Type()}})
			}
		case "bool":
			for _, b := range []string{"false", "true"} {
				cs = append(cs, cand{b, Val{K: KBool, T: b, Go: pv.Type()}})
			}
		case "ints", "ranges":
			sl := types.Unalias(pv.Type()).Underlying().(*types.Slice)
			if nm, ok := types.Unalias(sl.Elem()).(*types.Named); ok && nm.Obj().Pkg() != nil && nm.Obj().Pkg() != u.Pkg.Types {
				imports[nm.Obj().Pkg().Path()] = nm.Obj().Pkg().Name()
			}
			type elem struct{ lit, term string }
			var elems []elem
			if kinds[i] == "ints" {
				for _, n := range elemInts {
					elems = append(elems, elem{strconv.FormatInt(n, 10), intLit(n)})
				}
			} else {
				for _, ft := range [][2]int64{{0, 0}, {0, 1}, {0, 2}, {1, 2}, {1, 1}, {2, 1}, {0, 3}, {-1, 1}} {
					elems = append(elems, elem{fmt.Sprintf("{From: %d, To: %d}", ft[0], ft[1]), sx("mkRange", intLit(ft[0]), intLit(ft[1]))})
				}
			}
			es, zero := "Int", "((as const (Array Int Int)) 0)"
			if kinds[i] == "ranges" {
				es, zero = "Range", "((as const (Array Int Range)) (mkRange 0 0))"
			}
			var rec func(n int, lits []string, arr string)
			rec = func(n int, lits []string, arr string) {
				cs = append(cs, cand{fmt.Sprintf("%s{%s}", tstr, strings.Join(lits, ", ")),
					Val{K: KSlice, S: &SliceVal{Arr: arr, Off: "0", Len: strconv.Itoa(n), Elem: sl.Elem(), ESrt: es, Own: OwnLib}, Go: pv.Type()}})
				if n == maxLen {
					return
				}
				for _, e := range elems {
					rec(n+1, append(append([]string(nil), lits...), e.lit), sx("store", arr, strconv.Itoa(n), e.term))
				}
			}
			rec(0, nil, zero)
		}
		cands = append(cands, cs)
	}
	const maxCases = 2500
	total := 1
	for _, cs := range cands {
		total *= len(cs)
		if total > 50*maxCases {
			break
		}
	}
	// enumerate (strided when the product is larger than the cap, so that every parameter still varies)
	var cases []replayCase
	stride := 1
	if total > maxCases {
		stride = total/maxCases + 1
		if stride%2 == 0 {
			stride++
		}
	}
	for n := 0; n < total && len(cases) < maxCases; n += stride {
		k := n
		var c replayCase
		for _, cs := range cands {
			c.lits = append(c.lits, cs[k%len(cs)].lit)
			c.vals = append(c.vals, cs[k%len(cs)].val)
			k /= len(cs)
		}
		cases = append(cases, c)
	}
	fd := u.Name[strings.LastIndex(u.Name, ".")+1:]
	var src strings.Builder
	fmt.Fprintf(&src, "package %s\n\nimport (\n\t\"fmt\"\n\t\"testing\"\n", u.Pkg.Types.Name())
	for p, n := range imports {
		fmt.Fprintf(&src, "\t%s %q\n", n, p)
	}
	src.WriteString(")\n\n")
	var args, rs, ptypes []string
	for i := 0; i < np; i++ {
		args = append(args, fmt.Sprintf("a%d", i))
		ptypes = append(ptypes, fmt.Sprintf("a%d %s", i, types.TypeString(u.Sig.Params().At(i).Type(), qual)))
	}
	for i := range resKinds {
		rs = append(rs, fmt.Sprintf("r%d", i))
	}
	fmt.Fprintf(&src, "func qvCase(n int, %s) {\n\tdefer func() {\n\t\tif r := recover(); r != nil {\n\t\t\tfmt.Printf(\"QVCASE %%d panic %%v\\n\", n, r)\n\t\t}\n\t}()\n", strings.Join(ptypes, ", "))
	call := fmt.Sprintf("%s(%s)", fd, strings.Join(args, ", "))
	if len(rs) > 0 {
		fmt.Fprintf(&src, "\t%s := %s\n", strings.Join(rs, ", "), call)
	} else {
		fmt.Fprintf(&src, "\t%s\n", call)
	}
	src.WriteString("\tfmt.Printf(\"QVCASE %d ok\", n)\n")
	for i, k := range resKinds {
		switch k {
		case "error":
			fmt.Fprintf(&src, "\tfmt.Printf(\" | %%t\", r%d == nil)\n", i)
		case "ints":
			fmt.Fprintf(&src, "\tfmt.Printf(\" | %%d\", len(r%d))\n\tfor _, x := range r%d {\n\t\tfmt.Printf(\" %%d\", x)\n\t}\n", i, i)
		case "ranges":
			fmt.Fprintf(&src, "\tfmt.Printf(\" | %%d\", len(r%d))\n\tfor _, x := range r%d {\n\t\tfmt.Printf(\" %%d:%%d\", x.From, x.To)\n\t}\n", i, i)
		default:
			fmt.Fprintf(&src, "\tfmt.Printf(\" | %%v\", r%d)\n", i)
		}
	}
	src.WriteString("\tfmt.Println()\n}\n\nfunc TestQvReplay(t *testing.T) {\n")
	for n, c := range cases {
		fmt.Fprintf(&src, "\tqvCase(%d, %s)\n", n, strings.Join(c.lits, ", "))
	}
	src.WriteString("}\n")
	pkgDir := filepath.Dir(u.Pkg.GoFiles[0])
	tmp, err := os.MkdirTemp("", "qvsearch")
	if err != nil {
		return "", false
	}
	defer os.RemoveAll(tmp)
	testSrc := filepath.Join(tmp, "qv_replay_test.go")
	os.WriteFile(testSrc, []byte(src.String()), 0o644)
	ov, _ := json.Marshal(map[string]any{"Replace": map[string]string{filepath.Join(pkgDir, "qv_replay_test.go"): testSrc}})
	ovFile := filepath.Join(tmp, "overlay.json")
	os.WriteFile(ovFile, ov, 0o644)
	cmd := exec.Command("go", "test", "-overlay", ovFile, "-v", "-vet=off", "-count=1", "-timeout", "120s", "-run", "^TestQvReplay$", ".")
	cmd.Dir = pkgDir
	cmd.Env = append(os.Environ(), "GOFLAGS=-mod=mod", "GOPROXY=off", "GOSUMDB=off", "GOTOOLCHAIN=local")
	outB, _ := cmd.CombinedOutput()
	observed := map[int]string{}
	for _, l := range strings.Split(string(outB), "\n") {
		if strings.HasPrefix(l, "QVCASE ") {
			fs := strings.SplitN(l[7:], " ", 2)
			if n, err := strconv.Atoi(fs[0]); err == nil && len(fs) == 2 {
				observed[n] = fs[1]
			}
		}
	}
	var tr strings.Builder
	fmt.Fprintf(&tr, "the solver gave no model; small-input search over the real %s (bounded: %d inputs; ints in %v, slices up to length %d): each input is run through the real code (in-package test via go test -overlay) and the function's preconditions and postconditions are decided on the concrete values\n", u.Name, len(cases), ints, maxLen)
	if len(observed) == 0 {
		tr.WriteString("(the search produced no result)\n" + string(outB))
		return tr.String(), false
	}
	// one incremental script: per case  push; assert requires; check-sat; assert post_i; check-sat ...; pop
	var found string
	ok := func() (confirmed bool) {
		defer func() {
			if x := recover(); x != nil {
				fmt.Fprintf(&tr, "not confirmed: the contract could not be evaluated on concrete values (%v)\n", x)
				confirmed = false
			}
		}()
		r2 := newUnitRun(r.prog, u)
		type chk struct {
			n      int
			req    string
			posts  []string
			panics bool
		}
		var chks []chk
		var mention strings.Builder
		for n, c := range cases {
			obs, ok := observed[n]
			if !ok {
				continue
			}
			st := &State{u: r2, vars: map[types.Object]Val{}, names: map[string]types.Object{}, arrs: map[*Obj]string{}, heap: map[string]string{}, frozen: map[*Obj]bool{}, ghost: map[string]Val{}}
			bound := map[string]Val{}
			for i := 0; i < np; i++ {
				pv := u.Sig.Params().At(i)
				st.bind(pv, c.vals[i])
				bound[pv.Name()] = c.vals[i]
			}
			r2.entry = st.clone()
			envR := &SpecEnv{run: r2, st: st, old: r2.entry, bound: bound}
			var reqs []string
			for _, rc := range u.Requires {
				reqs = append(reqs, r2.specBool(envR, rc, "replay search"))
			}
			ck := chk{n: n, req: and(reqs...)}
			if strings.HasPrefix(obs, "panic") {
				ck.panics = true
			} else {
				parts := strings.Split(strings.TrimPrefix(obs, "ok"), " | ")
				if len(parts) != len(resKinds)+1 {
					continue
				}
				for i, k := range resKinds {
					line := strings.TrimSpace(parts[i+1])
					rv := u.Sig.Results().At(i)
					var v Val
					switch k {
					case "int":
						x, _ := strconv.ParseInt(line, 10, 64)
						v = Val{K: KInt, T: intLit(x), Go: rv.Type()}
					case "bool":
						v = Val{K: KBool, T: line, Go: rv.Type()}
					case "error":
						v = Val{K: KErr, T: line, Go: rv.Type()}
					case "ints", "ranges":
						fs := strings.Fields(line)
						cnt, _ := strconv.Atoi(fs[0])
						es, arr := "Int", "((as const (Array Int Int)) 0)"
						if k == "ranges" {
							es, arr = "Range", "((as const (Array Int Range)) (mkRange 0 0))"
						}
						for j := 0; j < cnt && j+1 < len(fs); j++ {
							if k == "ints" {
								x, _ := strconv.ParseInt(fs[j+1], 10, 64)
								arr = sx("store", arr, strconv.Itoa(j), intLit(x))
							} else {
								ft := strings.SplitN(fs[j+1], ":", 2)
								f, _ := strconv.ParseInt(ft[0], 10, 64)
								t, _ := strconv.ParseInt(ft[1], 10, 64)
								arr = sx("store", arr, strconv.Itoa(j), sx("mkRange", intLit(f), intLit(t)))
							}
						}
						sl := types.Unalias(rv.Type()).Underlying().(*types.Slice)
						v = Val{K: KSlice, S: &SliceVal{Arr: arr, Off: "0", Len: strconv.Itoa(cnt), Elem: sl.Elem(), ESrt: es, Own: OwnLib}, Go: rv.Type()}
					}
					name := rv.Name()
					if name == "" || name == "_" {
						name = fmt.Sprintf("res%d", i)
					}
					bound[name] = v
					bound[fmt.Sprintf("res%d", i)] = v
					if i == 0 {
						bound["res"] = v
					}
				}
				envP := &SpecEnv{run: r2, st: st, old: r2.entry, bound: bound}
				for _, pc := range u.Ensures {
					if len(pc.Uses) > 0 || pc.Opt != "" {
						ck.posts = append(ck.posts, "true") // clauses that need lemmas are not decided here
						continue
					}
					ck.posts = append(ck.posts, r2.specBool(envP, pc, "replay search"))
				}
			}
			mention.WriteString(ck.req)
			for _, p := range ck.posts {
				mention.WriteString(p)
			}
			chks = append(chks, ck)
		}
		var script strings.Builder
		script.WriteString(r2.smtHeader(mention.String()))
		for _, ck := range chks {
			fmt.Fprintf(&script, "(push 1)\n(assert %s)\n(check-sat)\n", ck.req)
			for _, p := range ck.posts {
				fmt.Fprintf(&script, "(push 1)\n(assert %s)\n(check-sat)\n(pop 1)\n", p)
			}
			script.WriteString("(pop 1)\n")
		}
		f := filepath.Join(tmp, "search.smt2")
		os.WriteFile(f, []byte(script.String()), 0o644)
		so, _ := runSolver(contextBackground(), "z3-new", nil, f, 120*time.Second)
		answers := strings.Fields(so)
		k := 0
		next := func() string {
			if k < len(answers) {
				k++
				return answers[k-1]
			}
			return "unknown"
		}
		for _, ck := range chks {
			req := next()
			var bad []int
			for i := range ck.posts {
				if next() == "unsat" {
					bad = append(bad, i)
				}
			}
			if req != "sat" {
				continue
			}
			c := cases[ck.n]
			if ck.panics {
				found = fmt.Sprintf("%s(%s)  ->  %s", fd, strings.Join(c.lits, ", "), observed[ck.n])
				fmt.Fprintf(&tr, "\nCONFIRMED: the input satisfies the preconditions and the real code panics:\n    %s\n", found)
				return true
			}
			if len(bad) > 0 {
				found = fmt.Sprintf("%s(%s)  ->  %s", fd, strings.Join(c.lits, ", "), observed[ck.n])
				fmt.Fprintf(&tr, "\nCONFIRMED: the input satisfies the preconditions and the values the real code returned violate the postcondition\n    %s\ninput and observed result (results in declaration order; an error is shown as 'true' when nil):\n    %s\n", u.Ensures[bad[0]].Text, found)
				return true
			}
		}
		fmt.Fprintf(&tr, "\nnot confirmed: none of the %d small inputs that satisfy the preconditions panics or violates a postcondition\n", len(chks))
		return false
	}()
	return tr.String(), ok
}

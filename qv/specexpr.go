package main

import (
	"fmt"
	"go/ast"
	"go/token"
	"go/types"
	"strconv"
	"strings"
)

// ---------------------------------------------------------------------------------------------
// Evaluation of specification expressions (Go expression syntax + spec calls) to SMT
// ---------------------------------------------------------------------------------------------

type SpecEnv struct {
	run   *UnitRun
	st    *State // state in which program variables / heap are read
	old   *State // state for old(...)
	pre   *State // state at the head of the loop whose clause is being evaluated, for pre(...)
	bound map[string]Val
	// resolve a free program-variable name (falls back to st.names)
	resolve func(name string, st *State) (Val, bool)
	depth   int
	witness map[string]Val // instantiations for existsT variables (proof side only)
}

func (e *SpecEnv) with(name string, v Val) *SpecEnv {
	n := *e
	n.bound = make(map[string]Val, len(e.bound)+1)
	for k, x := range e.bound {
		n.bound[k] = x
	}
	n.bound[name] = v
	return &n
}

func (e *SpecEnv) inOld() *SpecEnv {
	n := *e
	if e.old != nil {
		n.st = e.old
	}
	return &n
}

type specError string

func (s specError) Error() string { return string(s) }

func specFail(format string, args ...any) {
	panic(specError(fmt.Sprintf(format, args...)))
}

func (e *SpecEnv) boolOf(x ast.Expr) string {
	v := e.eval(x)
	if v.K != KBool {
		specFail("expected boolean spec expression, got %s in %s", v, types.ExprString(x))
	}
	return v.T
}

func (e *SpecEnv) numOf(x ast.Expr) Val {
	v := e.eval(x)
	if v.K != KInt && v.K != KReal {
		specFail("expected numeric spec expression, got %s in %s", v, types.ExprString(x))
	}
	return v
}

func toReal(v Val) string {
	if v.K == KReal {
		return v.T
	}
	if n, ok := isIntLit(v.T); ok {
		if n < 0 {
			return fmt.Sprintf("(- %d.0)", -n)
		}
		return fmt.Sprintf("%d.0", n)
	}
	return sx("to_real", v.T)
}

func realLit(s string) string {
	// s is a Go float literal or exact constant string; produce an SMT real term
	if f, err := strconv.ParseFloat(s, 64); err == nil {
		neg := f < 0
		if neg {
			f = -f
		}
		r := strconv.FormatFloat(f, 'f', -1, 64)
		if !strings.Contains(r, ".") {
			r += ".0"
		}
		if len(r) > 60 {
			// very small/large numbers: use scientific decomposition mantissa / 10^k
			mant, exp := fmtSci(f)
			if exp < 0 {
				r = fmt.Sprintf("(/ %s 1%s.0)", mant, strings.Repeat("0", -exp))
			} else {
				r = fmt.Sprintf("(* %s 1%s.0)", mant, strings.Repeat("0", exp))
			}
		}
		if neg {
			return "(- " + r + ")"
		}
		return r
	}
	return s
}

func fmtSci(f float64) (string, int) {
	s := strconv.FormatFloat(f, 'e', -1, 64) // d.ddde±xx
	i := strings.Index(s, "e")
	mant := s[:i]
	exp, _ := strconv.Atoi(s[i+1:])
	if !strings.Contains(mant, ".") {
		mant += ".0"
	}
	return mant, exp
}

func (e *SpecEnv) lookup(name string) (Val, bool) {
	if v, ok := e.bound[name]; ok {
		return v, true
	}
	if e.resolve != nil {
		if v, ok := e.resolve(name, e.st); ok {
			return v, true
		}
	}
	if e.st != nil {
		if obj, ok := e.st.names[name]; ok {
			if v, ok := e.st.vars[obj]; ok {
				return v, true
			}
		}
		if v, ok := e.st.ghost[name]; ok {
			return v, true
		}
	}
	return Val{}, false
}

func (e *SpecEnv) eval(x ast.Expr) Val {
	w := e.run.prog.World
	switch x := x.(type) {
	case *ast.ParenExpr:
		return e.eval(x.X)
	case *ast.BasicLit:
		switch x.Kind {
		case token.INT:
			n, _ := strconv.ParseInt(x.Value, 0, 64)
			return intV(intLit(n))
		case token.FLOAT:
			return realV(realLit(x.Value))
		case token.STRING:
			s, _ := strconv.Unquote(x.Value)
			return Val{K: KStr, T: w.internStr(s)}
		}
	case *ast.Ident:
		switch x.Name {
		case "true", "false":
			return boolV(x.Name)
		case "nil":
			return Val{K: KUnit, T: "nil"}
		}
		if v, ok := e.lookup(x.Name); ok {
			return v
		}
		if c, ok := e.run.constByName(x.Name); ok {
			return c
		}
		specFail("unknown name %q in spec", x.Name)
	case *ast.UnaryExpr:
		switch x.Op {
		case token.NOT:
			return boolV(not(e.boolOf(x.X)))
		case token.SUB:
			v := e.numOf(x.X)
			if n, ok := isIntLit(v.T); ok && v.K == KInt {
				return intV(intLit(-n))
			}
			return Val{K: v.K, T: sx("-", v.T)}
		case token.AND:
			// &x.f : pointer to a heap field, as the uninterpreted term fieldptr_<f>(x)
			if sel, ok := x.X.(*ast.SelectorExpr); ok {
				base := e.eval(sel.X)
				if base.K == KRef {
					if sty, ok := e.run.structTypeOf(base); ok {
						fi := e.run.prog.World.field(sty, sel.Sel.Name)
						fl := &fieldLoc{r: e.run, ref: base.T, fi: fi}
						pt := types.NewPointer(fi.goType)
						return Val{K: KRef, T: e.run.toTerm(e.st, Val{K: KPtr, P: fl}, pt), Sort: e.run.prog.World.sortOf(pt), Go: pt}
					}
				}
			}
			specFail("unsupported address-of in spec")
		case token.MUL:
			// *p in specs
		}
	case *ast.StarExpr:
		v := e.eval(x.X)
		if v.K == KPtr {
			return v.P.load(e.st)
		}
		specFail("cannot dereference %s in spec", v)
	case *ast.BinaryExpr:
		switch x.Op {
		case token.LAND:
			return boolV(and(e.boolOf(x.X), e.boolOf(x.Y)))
		case token.LOR:
			return boolV(or(e.boolOf(x.X), e.boolOf(x.Y)))
		case token.EQL, token.NEQ:
			a, b := e.eval(x.X), e.eval(x.Y)
			r := specEq(w, a, b)
			if x.Op == token.NEQ {
				r = not(r)
			}
			return boolV(r)
		case token.LSS, token.LEQ, token.GTR, token.GEQ:
			a, b := e.numOf(x.X), e.numOf(x.Y)
			op := map[token.Token]string{token.LSS: "<", token.LEQ: "<=", token.GTR: ">", token.GEQ: ">="}[x.Op]
			if a.K == KReal || b.K == KReal {
				return boolV(sx(op, toReal(a), toReal(b)))
			}
			return boolV(sx(op, a.T, b.T))
		case token.ADD, token.SUB, token.MUL, token.QUO, token.REM:
			a, b := e.numOf(x.X), e.numOf(x.Y)
			if a.K == KReal || b.K == KReal {
				op := map[token.Token]string{token.ADD: "+", token.SUB: "-", token.MUL: "*", token.QUO: "/"}[x.Op]
				if op == "" {
					specFail("%% on reals")
				}
				return realV(sx(op, toReal(a), toReal(b)))
			}
			switch x.Op {
			case token.ADD:
				return intV(add(a.T, b.T))
			case token.SUB:
				return intV(sub(a.T, b.T))
			case token.MUL:
				return intV(sx("*", a.T, b.T))
			case token.QUO:
				return intV(sx("div", a.T, b.T))
			case token.REM:
				return intV(sx("mod", a.T, b.T))
			}
		}
	case *ast.IndexExpr:
		base := e.eval(x.X)
		if base.K == KRef && strings.HasPrefix(base.Sort, "M_") && base.Go != nil {
			if mt, ok := types.Unalias(base.Go).Underlying().(*types.Map); ok {
				k := e.eval(x.Index)
				return e.run.mapGet(e.st, base, k, mt).Tup[0]
			}
		}
		idx := e.numOf(x.Index)
		if base.K == KSlice {
			return e.run.sliceElem(e.st, base.S, idx.T)
		}
		if base.K == KRef && strings.HasPrefix(base.Sort, "M_") && base.Go != nil {
			if mt, ok := types.Unalias(base.Go).Underlying().(*types.Map); ok {
				k := e.eval(x.Index)
				return e.run.mapGet(e.st, base, k, mt).Tup[0]
			}
		}
		if base.K == KRef && strings.HasPrefix(base.Sort, "(Array Int") {
			es := strings.TrimSuffix(strings.TrimPrefix(base.Sort, "(Array Int "), ")")
			return e.run.valOfSort(sx("select", base.T, idx.T), es)
		}
		specFail("cannot index %s", base)
	case *ast.SliceExpr:
		base := e.eval(x.X)
		if base.K != KSlice {
			specFail("cannot slice %s", base)
		}
		s := *base.S
		lo := "0"
		if x.Low != nil {
			lo = e.numOf(x.Low).T
		}
		hi := s.Len
		if x.High != nil {
			hi = e.numOf(x.High).T
		}
		s.Off = add(s.Off, lo)
		s.Len = sub(hi, lo)
		s.Cap = ""
		return Val{K: KSlice, S: &s, Go: base.Go}
	case *ast.SelectorExpr:
		// package-qualified constant?
		if id, ok := x.X.(*ast.Ident); ok {
			if _, isVar := e.lookup(id.Name); !isVar {
				if c, ok := e.run.constByName(id.Name + "." + x.Sel.Name); ok {
					return c
				}
			}
		}
		base := e.eval(x.X)
		return e.run.selectField(e.st, base, x.Sel.Name, nil)
	case *ast.CallExpr:
		return e.evalCall(x)
	}
	specFail("unsupported spec expression %s", types.ExprString(x))
	return Val{}
}

func specEq(w *World, a, b Val) string {
	if a.K == KUnit && a.T == "nil" {
		a, b = b, a
	}
	if b.K == KUnit && b.T == "nil" {
		switch a.K {
		case KErr:
			return a.T
		case KRef:
			if strings.HasPrefix(a.Sort, "M_") {
				return sx("isnil"+a.Sort, a.T)
			}
			return eq(a.T, w.nilOf(a.Sort))
		case KFunc:
			if a.Fn.term != "" {
				return eq(a.Fn.term, "nil_Fn")
			}
			return "false"
		case KPtr:
			if pp, ok := a.P.(*paramPtrLoc); ok {
				return pp.isNil
			}
			return "false"
		case KUnit:
			return "true"
		}
		specFail("cannot compare %s with nil", a)
	}
	switch {
	case a.K == KInt && b.K == KInt, a.K == KBool && b.K == KBool, a.K == KStr && b.K == KStr, a.K == KErr && b.K == KErr:
		return eq(a.T, b.T)
	case (a.K == KReal || a.K == KInt) && (b.K == KReal || b.K == KInt):
		return eq(toReal(a), toReal(b))
	case a.K == KRef && b.K == KRef:
		return eq(a.T, b.T)
	case a.K == KStruct && b.K == KStruct:
		var cs []string
		for _, k := range sortedKeys(a.F) {
			cs = append(cs, specEq(w, a.F[k], b.F[k]))
		}
		return and(cs...)
	}
	specFail("cannot compare %s and %s", a, b)
	return ""
}

var qcount int

func (e *SpecEnv) quant(kind string, x *ast.CallExpr) Val {
	if len(x.Args) != 4 {
		specFail("%s(k, lo, hi, body) expects 4 arguments", kind)
	}
	id, ok := x.Args[0].(*ast.Ident)
	if !ok {
		specFail("%s: first argument must be an identifier", kind)
	}
	lo, hi := e.numOf(x.Args[1]), e.numOf(x.Args[2])
	qcount++
	v := fmt.Sprintf("%s!q%d", sanitize(id.Name), qcount)
	body := e.with(id.Name, intV(v)).boolOf(x.Args[3])
	rng := and(sx("<=", lo.T, v), sx("<", v, hi.T))
	if kind == "forall" {
		return boolV(fmt.Sprintf("(forall ((%s Int)) %s)", v, implies(rng, body)))
	}
	return boolV(fmt.Sprintf("(exists ((%s Int)) %s)", v, and(rng, body)))
}

func (e *SpecEnv) quantSort(x *ast.CallExpr, sort string, mk func(string) Val) Val {
	if len(x.Args) != 2 {
		specFail("quantifier expects (var, body)")
	}
	id, ok := x.Args[0].(*ast.Ident)
	if !ok {
		specFail("quantifier: first argument must be an identifier")
	}
	qcount++
	v := fmt.Sprintf("%s!q%d", sanitize(id.Name), qcount)
	body := e.with(id.Name, mk(v)).boolOf(x.Args[1])
	// a quantifier chain that ends in an explicit trigger (trig(body, terms...)) is merged into one quantifier, so that
	// the pattern may mention all of its variables
	if strings.HasPrefix(body, "(forall (") && strings.Contains(body, ":pattern") && explicitTrigger(body) {
		return boolV(fmt.Sprintf("(forall ((%s %s) %s", v, sort, strings.TrimPrefix(body, "(forall (")))
	}
	return boolV(fmt.Sprintf("(forall ((%s %s)) %s)", v, sort, body))
}

// explicitTrigger: the quantifier's body (after its binder list) is an annotated term "(! ... :pattern ...)".
func explicitTrigger(q string) bool {
	// skip "(forall (" binder-list ")" 
	depth := 0
	for i := len("(forall "); i < len(q); i++ {
		switch q[i] {
		case '(':
			depth++
		case ')':
			depth--
			if depth == 0 {
				rest := strings.TrimSpace(q[i+1:])
				return strings.HasPrefix(rest, "(! ")
			}
		}
	}
	return false
}

func (e *SpecEnv) evalCall(x *ast.CallExpr) Val {
	w := e.run.prog.World
	name := ""
	switch f := x.Fun.(type) {
	case *ast.Ident:
		name = f.Name
	case *ast.SelectorExpr:
		if id, ok := f.X.(*ast.Ident); ok {
			name = id.Name + "." + f.Sel.Name
		}
	}
	arg := func(i int) Val {
		if i >= len(x.Args) {
			specFail("%s: missing argument %d", name, i)
		}
		return e.eval(x.Args[i])
	}
	switch name {
	case "forall", "exists":
		return e.quant(name, x)
	case "forallJ":
		return e.quantSort(x, "(Array Int Int)", func(v string) Val { return Val{K: KRef, T: v, Sort: "(Array Int Int)"} })
	case "forallR":
		return e.quantSort(x, "Real", func(v string) Val { return realV(v) })
	case "forallI":
		return e.quantSort(x, "Int", func(v string) Val { return intV(v) })
	case "forallD":
		e.run.needData()
		return e.quantSort(x, "Data", func(v string) Val { return Val{K: KRef, T: v, Sort: "Data"} })
	case "forallF":
		return e.quantSort(x, "Fn", func(v string) Val { return Val{K: KRef, T: v, Sort: "Fn"} })
	case "forallRA":
		return e.quantSort(x, "(Array Int Range)", func(v string) Val { return Val{K: KRef, T: v, Sort: "(Array Int Range)"} })
	case "leafv":
		// leafv(d, J, k): the float64 leaf reached from d by following J[k], J[k+1], ...
		e.run.needData()
		bf := e.run.boxFn("Real", "Data")
		w.ensureSl("Data")
		bs := e.run.boxFn("Sl_Data", "Data")
		e.run.needNamed("leafv", fmt.Sprintf(`(declare-fun leafv (Data (Array Int Int) Int) Real)
(assert (forall ((d Data) (J (Array Int Int)) (k Int)) (! (=> (is%s d) (= (leafv d J k) (un%s d))) :pattern ((leafv d J k)))))
(assert (forall ((d Data) (J (Array Int Int)) (k Int)) (! (=> (is%s d) (= (leafv d J k) (leafv (select (arrSl_Data (un%s d)) (select J k)) J (+ k 1)))) :pattern ((leafv d J k)))))`, bf, bf, bs, bs))
		return realV(sx("leafv", arg(0).T, e.run.coerce(e.st, arg(1), idxSort, name), arg(2).T))
	case "foldD", "foldK":
		// foldD(f, d, n, acc): left fold of the binary function f over the leaves of the depth-n tree d in row-major
		// order, starting from acc; foldK(f, d, n, acc, k): the same over the first k children of d only
		e.run.needData()
		e.run.needFn()
		bf := e.run.boxFn("Real", "Data")
		w.ensureSl("Data")
		bs := e.run.boxFn("Sl_Data", "Data")
		w.decls.declare("app_Real_Real", "(declare-fun app_Real_Real (Fn Real Real) Real)")
		// declared here; defined by the spec axioms foldDDef / foldKDef (handed only to the units that unfold them: a
		// recursive definition that is always present is a matching loop)
		_, _ = bf, bs
		e.run.needNamed("foldD", "(declare-fun foldD (Fn Data Int Real) Real)\n(declare-fun foldK (Fn Data Int Real Int) Real)")
		fn := e.run.coerce(e.st, arg(0), "Fn", name)
		if name == "foldD" {
			return realV(sx("foldD", fn, arg(1).T, arg(2).T, toReal(arg(3))))
		}
		return realV(sx("foldK", fn, arg(1).T, arg(2).T, toReal(arg(3)), arg(4).T))
	case "ones", "onesK":
		// ones(d, A, lo, hi): number of leaves equal to 1 in the tree d (levels lo..hi, sizes A); onesK(d, A, lo, hi, k): the
		// same over the first k children of d. Declared here, defined by the spec axioms onesDef / onesKDef.
		e.run.needData()
		e.run.needNamed("ones", "(declare-fun ones (Data (Array Int Int) Int Int) Int)\n(declare-fun onesK (Data (Array Int Int) Int Int Int) Int)")
		if name == "ones" {
			return intV(sx("ones", arg(0).T, e.run.coerce(e.st, arg(1), idxSort, name), arg(2).T, arg(3).T))
		}
		return intV(sx("onesK", arg(0).T, e.run.coerce(e.st, arg(1), idxSort, name), arg(2).T, arg(3).T, arg(4).T))
	case "plusFn":
		// a function value that adds: the witness for the "for every adding function" definitions (tsumDef)
		e.run.needFn()
		w.decls.declare("app_Real_Real", "(declare-fun app_Real_Real (Fn Real Real) Real)")
		e.run.needNamed("plusFn", "(declare-fun plusFn () Fn)\n(assert (forall ((a Real) (b Real)) (! (= (app_Real_Real plusFn a b) (+ a b)) :pattern ((app_Real_Real plusFn a b)))))")
		return Val{K: KRef, T: "plusFn", Sort: "Fn"}
	case "dataMM":
		// dataMM(a, b, i, j, k): sum over q < k of a[i][q] * b[q][j] for two matrices of float64 leaves
		e.run.needData()
		bf := e.run.boxFn("Real", "Data")
		w.ensureSl("Data")
		bs := e.run.boxFn("Sl_Data", "Data")
		ch := func(d, i string) string { return fmt.Sprintf("(select (arrSl_Data (un%s %s)) %s)", bs, d, i) }
		e.run.needNamed("dataMM", fmt.Sprintf(`(declare-fun dataMM (Data Data Int Int Int) Real)
(assert (forall ((a Data) (b Data) (i Int) (j Int) (k Int)) (! (= (dataMM a b i j k) (ite (<= k 0) 0.0 (+ (dataMM a b i j (- k 1)) (* (un%s %s) (un%s %s))))) :pattern ((dataMM a b i j k)))))`,
			bf, ch(ch("a", "i"), "(- k 1)"), bf, ch(ch("b", "(- k 1)"), "j")))
		return realV(sx("dataMM", arg(0).T, arg(1).T, arg(2).T, arg(3).T, arg(4).T))
	case "dataDot":
		// dataDot(a, b, k): sum over i < k of the products of the i-th float64 children of the rows a and b
		e.run.needData()
		bf := e.run.boxFn("Real", "Data")
		w.ensureSl("Data")
		bs := e.run.boxFn("Sl_Data", "Data")
		e.run.needNamed("dataDot", fmt.Sprintf(`(declare-fun dataDot (Data Data Int) Real)
(assert (forall ((a Data) (b Data) (k Int)) (! (= (dataDot a b k) (ite (<= k 0) 0.0 (+ (dataDot a b (- k 1)) (* (un%s (select (arrSl_Data (un%s a)) (- k 1))) (un%s (select (arrSl_Data (un%s b)) (- k 1))))))) :pattern ((dataDot a b k)))))`, bf, bs, bf, bs))
		return realV(sx("dataDot", arg(0).T, arg(1).T, arg(2).T))
	case "forallG":
		return e.quantSort(x, "R_GradContext", func(v string) Val {
			return Val{K: KRef, T: v, Sort: "R_GradContext", Go: e.run.ptrTypeByName("GradContext")}
		})
	case "forallA":
		return e.quantSort(x, "R_Accuracy", func(v string) Val {
			return Val{K: KRef, T: v, Sort: "R_Accuracy", Go: e.run.ptrTypeByName("Accuracy")}
		})
	case "forallE":
		return e.quantSort(x, "R_backwardEdge", func(v string) Val {
			return Val{K: KRef, T: v, Sort: "R_backwardEdge", Go: e.run.ptrTypeByName("backwardEdge")}
		})
	case "addFrom", "subFrom":
		// addFrom(J, index): J[k] + (k < len(index) && !isAll(index[k]) ? index[k].From : 0); subFrom subtracts
		J := arg(0)
		ix := arg(1)
		if ix.K != KSlice {
			specFail("%s: second argument must be a []Range", name)
		}
		e.run.needNamed("addFrom", `(declare-fun addFrom ((Array Int Int) (Array Int Range) Int) (Array Int Int))
(declare-fun subFrom ((Array Int Int) (Array Int Range) Int) (Array Int Int))
(define-fun rfrom ((A (Array Int Range)) (n Int) (k Int)) Int (ite (and (<= 0 k) (< k n) (not (and (= (From (select A k)) 0) (= (To (select A k)) 0)))) (From (select A k)) 0))
(assert (forall ((J (Array Int Int)) (A (Array Int Range)) (n Int) (k Int)) (! (= (select (addFrom J A n) k) (+ (select J k) (rfrom A n k))) :pattern ((select (addFrom J A n) k)))))
(assert (forall ((J (Array Int Int)) (A (Array Int Range)) (n Int) (k Int)) (! (= (select (subFrom J A n) k) (- (select J k) (rfrom A n k))) :pattern ((select (subFrom J A n) k)))))`)
		return Val{K: KRef, T: sx(name, e.run.coerce(e.st, J, idxSort, name), e.run.zeroBased(e.st, ix.S), ix.S.Len), Sort: idxSort}
	case "app1", "app2", "appT":
		// application of a function value: app1(f, x), app2(f, a, b), appT(f, t)
		fv := arg(0)
		fn := e.run.coerce(e.st, fv, "Fn", name)
		switch name {
		case "app1":
			e.run.prog.World.decls.declare("app_Real", "(declare-fun app_Real (Fn Real) Real)")
			return realV(sx("app_Real", fn, toReal(arg(1))))
		case "app2":
			e.run.prog.World.decls.declare("app_Real_Real", "(declare-fun app_Real_Real (Fn Real Real) Real)")
			return realV(sx("app_Real_Real", fn, toReal(arg(1)), toReal(arg(2))))
		default:
			e.run.prog.World.decls.declare("app_T", "(declare-fun app_T (Fn T) Real)")
			return realV(sx("app_T", fn, arg(1).T))
		}
	case "catoff":
		// catoff(xs, dim, n): sum over k < n of dim(xs[k], dim)
		xs := arg(0)
		if xs.K != KSlice {
			specFail("catoff: first argument must be a []Tensor")
		}
		e.run.needDomain("dsumT")
		return intV(sx("dsumT", e.run.zeroBased(e.st, xs.S), arg(1).T, arg(2).T))
	case "published":
		v := arg(0)
		if v.K != KRef || v.Sort != "T" {
			specFail("published of %s", v)
		}
		return boolV(sx("published", v.T))
	case "preexisting":
		v := arg(0)
		if v.K != KRef {
			specFail("preexisting of %s", v)
		}
		e.run.declBirth(v.Sort)
		return boolV(sx("<=", sx("birth_"+sanitize(v.Sort), v.T), "0"))
	case "mapHas":
		m := arg(0)
		if m.K != KRef || !strings.HasPrefix(m.Sort, "M_") || m.Go == nil {
			specFail("mapHas of %s", m)
		}
		mt := types.Unalias(m.Go).Underlying().(*types.Map)
		return e.run.mapGet(e.st, m, arg(1), mt).Tup[1]
	case "isF", "fval", "isS", "slen", "child", "mkF":
		// nested []any data (DESIGN.md 3.2): a Data value is a float64 leaf or a slice of Data
		d := arg(0)
		e.run.needData()
		bf := e.run.boxFn("Real", "Data")
		w.ensureSl("Data")
		bs := e.run.boxFn("Sl_Data", "Data")
		switch name {
		case "mkF":
			return Val{K: KRef, T: sx(bf, toReal(d)), Sort: "Data"}
		case "isF":
			return boolV(sx("is"+bf, d.T))
		case "fval":
			return realV(sx("un"+bf, d.T))
		case "isS":
			return boolV(sx("is"+bs, d.T))
		case "slen":
			return intV(sx("lenSl_Data", sx("un"+bs, d.T)))
		default:
			return Val{K: KRef, T: sx("select", sx("arrSl_Data", sx("un"+bs, d.T)), arg(1).T), Sort: "Data"}
		}
	case "arrOf":
		v := arg(0)
		if v.K != KSlice {
			specFail("arrOf of non-slice")
		}
		return Val{K: KRef, T: e.run.sliceArr(e.st, v.S), Sort: fmt.Sprintf("(Array Int %s)", v.S.ESrt)}
	case "offOf":
		v := arg(0)
		if v.K != KSlice {
			specFail("offOf of non-slice")
		}
		return intV(v.S.Off)
	case "endOf":
		v := arg(0)
		if v.K != KSlice {
			specFail("endOf of non-slice")
		}
		return intV(add(v.S.Off, v.S.Len))
	case "isNest", "asNest":
		// isNest(d, n) / asNest(d, n): the interface value d holds an n-fold nested []...[]float64 (n a literal 1..4);
		// asNest is that typed slice value
		d := arg(0)
		lit, ok := x.Args[1].(*ast.BasicLit)
		if !ok || d.K != KRef || d.Sort != "Data" {
			specFail("%s(d, n) expects an interface value and a literal depth", name)
		}
		n, _ := strconv.Atoi(lit.Value)
		if n < 1 || n > 4 {
			specFail("%s: depth %s out of range", name, lit.Value)
		}
		var t types.Type = types.Typ[types.Float64]
		for i := 0; i < n; i++ {
			t = types.NewSlice(t)
		}
		e.run.needData()
		fn := e.run.boxFn(w.sortOf(t), "Data")
		if name == "isNest" {
			return boolV(sx("is"+fn, d.T))
		}
		return e.run.lenFact(e.st, e.run.fromTerm(sx("un"+fn, d.T), t))
	case "boxReal":
		e.run.needData()
		return Val{K: KRef, T: sx(e.run.boxFn("Real", "Data"), toReal(arg(0))), Sort: "Data"}
	case "idx":
		// idx(s): an []int slice viewed as a multi-index
		v := arg(0)
		return Val{K: KRef, T: e.run.coerce(e.st, v, idxSort, name), Sort: idxSort}
	case "anyOf":
		v := arg(0)
		if v.K != KRef {
			specFail("anyOf of %s", v)
		}
		e.run.needData()
		return Val{K: KRef, T: sx(e.run.boxFn(v.Sort, "Data"), v.T), Sort: "Data"}
	case "forallT":
		return e.quantSort(x, "T", func(v string) Val { return Val{K: KRef, T: v, Sort: "T"} })
	case "existsT":
		if id, ok := x.Args[0].(*ast.Ident); ok && len(x.Args) == 2 {
			if w, ok := e.witness[id.Name]; ok {
				return boolV(e.with(id.Name, w).boolOf(x.Args[1]))
			}
		}
		q := e.quantSort(x, "T", func(v string) Val { return Val{K: KRef, T: v, Sort: "T"} })
		return boolV(strings.Replace(q.T, "(forall ", "(exists ", 1))
	case "imp":
		return boolV(implies(e.boolOf(x.Args[0]), e.boolOf(x.Args[1])))
	case "iff":
		return boolV(eq(e.boolOf(x.Args[0]), e.boolOf(x.Args[1])))
	case "ite":
		c := e.boolOf(x.Args[0])
		a, b := arg(1), arg(2)
		if a.K == KReal || b.K == KReal {
			return realV(ite(c, toReal(a), toReal(b)))
		}
		r := a
		r.T = ite(c, a.T, b.T)
		return r
	case "trig":
		// trig(body, t1, t2, ...): body with an explicit quantifier trigger (multi-pattern t1 t2 ...) for the enclosing
		// chain of sort quantifiers (forallI / forallJ / ...)
		if len(x.Args) < 2 {
			specFail("trig(body, terms...)")
		}
		b := e.boolOf(x.Args[0])
		var ts []string
		for _, a := range x.Args[1:] {
			v := e.eval(a)
			if v.K == KSlice || v.T == "" {
				specFail("trig: pattern terms must be scalar terms")
			}
			ts = append(ts, v.T)
		}
		return boolV(fmt.Sprintf("(! %s :pattern (%s))", b, strings.Join(ts, " ")))
	case "old", "pre":
		oe := e.inOld()
		if name == "pre" {
			if e.pre == nil {
				specFail("pre(...) is only available in loop clauses")
			}
			n := *e
			n.st = e.pre
			oe = &n
		}
		v := oe.eval(x.Args[0])
		if v.K == KSlice && v.S.Obj != nil && oe.st != nil {
			// a slice value does not remember the state it was read in (its contents are looked up by backing object):
			// freeze the contents it had in the old state, so that old(s) used outside of old(...) means the old contents
			fz := *v.S
			fz.Arr = e.run.sliceArr(oe.st, v.S)
			fz.Obj = nil
			fz.From = nil
			v.S = &fz
		}
		return v
	case "genIdx":
		f := arg(0)
		g, ok := e.st.ghost["genIdx"]
		if !ok {
			specFail("genIdx: no generator index in this state")
		}
		return e.run.valOfSort(sx("select", g.T, e.run.coerce(e.st, f, "Fn", "genIdx")), idxSort)
	case "zeroIdx":
		return e.run.valOfSort(zeroIdx, idxSort)
	case "ver":
		id, ok := x.Args[0].(*ast.Ident)
		lit, ok2 := x.Args[1].(*ast.BasicLit)
		if !ok || !ok2 {
			specFail("ver(name, n) expects a variable name and a literal ordinal")
		}
		v, ok := e.st.ghost["ver:"+id.Name+":"+lit.Value]
		if !ok {
			panic(toolLimit("no binding " + lit.Value + " of " + id.Name + " on this path"))
		}
		return v
	case "len":
		v := arg(0)
		if v.K != KSlice {
			specFail("len of non-slice %s", v)
		}
		return intV(v.S.Len)
	case "real":
		return realV(toReal(arg(0)))
	case "isnil":
		v := arg(0)
		if v.K == KSlice {
			return boolV(e.run.sliceIsNil(v.S))
		}
		return boolV(specEq(w, v, Val{K: KUnit, T: "nil"}))
	case "prod":
		s := arg(0)
		if s.K == KRef && s.Sort == idxSort {
			// product over an index / shape array
			e.run.needProd()
			return intV(sx("prod", s.T, arg(1).T, arg(2).T))
		}
		if s.K != KSlice {
			specFail("prod of non-slice")
		}
		e.run.needProd()
		lo, hi := arg(1), arg(2)
		// over the zero-based window of the slice (the same term an index array of its elements would give)
		return intV(sx("prod", e.run.zeroBased(e.st, s.S), lo.T, hi.T))
	case "sumr":
		// sumr(s, lo, hi): sum of an int slice segment
		s := arg(0)
		e.run.needSum()
		lo, hi := arg(1), arg(2)
		return intV(sx("isum", e.run.sliceArr(e.st, s.S), add(s.S.Off, lo.T), add(s.S.Off, hi.T)))
	case "eqs":
		// eqs(a, b): slices have equal length and elements
		a, b := arg(0), arg(1)
		qcount++
		k := fmt.Sprintf("k!q%d", qcount)
		ea := e.run.sliceElem(e.st, a.S, k)
		eb := e.run.sliceElem(e.st, b.S, k)
		return boolV(and(eq(a.S.Len, b.S.Len), fmt.Sprintf("(forall ((%s Int)) %s)", k, implies(and(sx("<=", "0", k), sx("<", k, a.S.Len)), specEq(w, ea, eb)))))
	}
	if m, ok := e.run.prog.Macros[name]; ok && m.Sorts != nil {
		if len(m.Params) != len(x.Args) {
			specFail("predicate %s expects %d arguments", name, len(m.Params))
		}
		e.run.needPredicate(m)
		var args []string
		for i, srt := range m.Sorts {
			args = append(args, e.run.coerce(e.st, arg(i), srt, name))
		}
		return boolV(sx("P_"+name, args...))
	}
	if m, ok := e.run.prog.Macros[name]; ok {
		if len(m.Params) != len(x.Args) {
			specFail("macro %s expects %d arguments", name, len(m.Params))
		}
		if e.depth > 40 {
			specFail("macro expansion too deep at %s", name)
		}
		n := *e
		n.depth++
		n.bound = make(map[string]Val, len(e.bound)+len(m.Params))
		for k, v := range e.bound {
			n.bound[k] = v
		}
		for i, p := range m.Params {
			n.bound[p] = e.eval(x.Args[i])
		}
		return n.eval(m.Body)
	}
	if df, ok := domainFuncs[name]; ok {
		var args []string
		if len(df.args) != len(x.Args) {
			specFail("%s expects %d arguments", name, len(df.args))
		}
		for i, s := range df.args {
			v := arg(i)
			args = append(args, e.run.coerce(e.st, v, s, name))
		}
		e.run.needDomain(name)
		t := df.smt
		if len(args) > 0 {
			t = sx(df.smt, args...)
		}
		return e.run.valOfSort(t, df.res)
	}
	specFail("unknown spec function %q", name)
	return Val{}
}

// domainFunc: uninterpreted (or axiomatised) functions available in specs
type domainFunc struct {
	smt  string
	args []string
	res  string
	decl string // extra declarations / axioms (emitted once when first used)
	deps []string
}

var domainFuncs = map[string]domainFunc{}

func registerDomain(name string, args []string, res string, axioms string, deps ...string) {
	decl := fmt.Sprintf("(declare-fun %s (%s) %s)\n%s", name, strings.Join(args, " "), res, axioms)
	domainFuncs[name] = domainFunc{smt: name, args: args, res: res, decl: decl, deps: deps}
}

// needPredicate declares the uninterpreted predicate P_<name> with its defining axiom (once per run).
func (r *UnitRun) needPredicate(m *Macro) {
	key := "pred:" + m.Name
	if r.needs[key] {
		return
	}
	r.needs[key] = true // set first: recursion guard
	bound := map[string]Val{}
	var binders, args []string
	for i, p := range m.Params {
		v := "p!" + sanitize(p)
		binders = append(binders, fmt.Sprintf("(%s %s)", v, m.Sorts[i]))
		args = append(args, v)
		bound[p] = r.valOfSort(v, m.Sorts[i])
		if m.Sorts[i] == "T" {
			bv := bound[p]
			bv.Go = nil
			bound[p] = bv
		}
	}
	if id, ok := m.Body.(*ast.Ident); ok && id.Name == "uninterpreted" {
		// a ghost relation without a definition (constrained only by named axioms)
		r.needOrd = append(r.needOrd, key)
		r.extra[key] = fmt.Sprintf("(declare-fun P_%s (%s) Bool)", m.Name, strings.Join(m.Sorts, " "))
		return
	}
	env := &SpecEnv{run: r, st: nil, bound: bound}
	body := env.boolOf(m.Body)
	text := fmt.Sprintf("(declare-fun P_%s (%s) Bool)\n(assert (forall (%s) (! (= (P_%s %s) %s) :pattern ((P_%s %s)))))",
		m.Name, strings.Join(m.Sorts, " "), strings.Join(binders, " "), m.Name, strings.Join(args, " "), body, m.Name, strings.Join(args, " "))
	// the body may have pulled in further declarations, which must precede this one: append now
	r.needOrd = append(r.needOrd, key)
	r.extra[key] = text
}

package rac

import (
	"fmt"
	"math"
	"math/rand"
	"sync"
	"testing"

	"github.com/sahandsafizadeh/qeep/component/initializers"
	"github.com/sahandsafizadeh/qeep/component/layers"
	"github.com/sahandsafizadeh/qeep/component/layers/activations"
	"github.com/sahandsafizadeh/qeep/component/losses"
	"github.com/sahandsafizadeh/qeep/component/metrics"
	"github.com/sahandsafizadeh/qeep/component/optimizers"
	"github.com/sahandsafizadeh/qeep/tensor"
)

const eps = 1e-12

func clipf(x, l, u float64) float64 { return math.Max(l, math.Min(x, u)) }

/* ---------------- C12 / C13: losses ---------------- */

type lossCase struct {
	name  string
	rank  int
	fwd   func(p, t Ref) float64
	grad  func(p, t Ref, i int) (float64, bool) // analytic derivative w.r.t. p[i]; false = exactly at a clipping bound
	apply func(p, t tensor.Tensor) (tensor.Tensor, error)
}

func lossCases() []lossCase {
	mse, bce, ce := losses.NewMSE(), losses.NewBCE(), losses.NewCE()
	return []lossCase{
		{"MSE", 1, func(p, t Ref) float64 {
			s := 0.
			for i := range p.Data {
				s += (p.Data[i] - t.Data[i]) * (p.Data[i] - t.Data[i])
			}
			return s / float64(len(p.Data))
		}, func(p, t Ref, i int) (float64, bool) { return 2 * (p.Data[i] - t.Data[i]) / float64(len(p.Data)), true },
			func(p, t tensor.Tensor) (tensor.Tensor, error) { return mse.Compute(p, t) }},
		{"BCE", 1, func(p, t Ref) float64 {
			s := 0.
			for i := range p.Data {
				pp, tt := clipf(p.Data[i], eps, 1-eps), clipf(t.Data[i], 0, 1)
				s += tt*math.Log(pp) + (1-tt)*math.Log(1-pp)
			}
			return -s / float64(len(p.Data))
		}, func(p, t Ref, i int) (float64, bool) {
			x, tt := p.Data[i], clipf(t.Data[i], 0, 1)
			if x == eps || x == 1-eps {
				return 0, false
			}
			if x < eps || x > 1-eps {
				return 0, true
			}
			return ((1-tt)/(1-x) - tt/x) / float64(len(p.Data)), true
		}, func(p, t tensor.Tensor) (tensor.Tensor, error) { return bce.Compute(p, t) }},
		{"CE", 2, func(p, t Ref) float64 {
			s := 0.
			for i := range p.Data {
				s += clipf(t.Data[i], 0, 1) * math.Log(clipf(p.Data[i], eps, 1-eps))
			}
			return -s / float64(p.Shape[0])
		}, func(p, t Ref, i int) (float64, bool) {
			x, tt := p.Data[i], clipf(t.Data[i], 0, 1)
			if x == eps || x == 1-eps {
				return 0, false
			}
			if x < eps || x > 1-eps {
				return 0, true
			}
			return -(tt / x) / float64(p.Shape[0]), true
		}, func(p, t tensor.Tensor) (tensor.Tensor, error) { return ce.Compute(p, t) }},
	}
}

func lossShapes(rank int) [][]int {
	var out [][]int
	for b := 1; b <= 4; b++ {
		if rank == 1 {
			out = append(out, []int{b})
		} else {
			for c := 1; c <= 3; c++ {
				out = append(out, []int{b, c})
			}
		}
	}
	return out
}

func TestLossValues(t *testing.T) {
	r := newReporter("TestLossValues")
	defer r.done(t)
	rng := rand.New(rand.NewSource(seed()))
	grid := []float64{0, 1, 0.5, eps, 1 - eps, eps / 2, 1 - eps/2, 2 * eps, -0.3, 1.7, 1e6, -1e6, 0.25}
	for _, lc := range lossCases() {
		shs := lossShapes(lc.rank)
		// large batches: a summation that changes its strategy with the number of elements (blocked / pairwise fast paths,
		// seeds C12-5 and C19-4) is invisible to batches of four
		for _, b := range []int{130, 257, 1000, 20000} {
			if lc.rank == 1 {
				shs = append(shs, []int{b})
			} else if b <= 1000 {
				shs = append(shs, []int{b, 2})
			}
		}
		for _, s := range shs {
			for rep := 0; rep < 12; rep++ {
				if s[0] > 4 && rep >= 2 {
					break
				}
				p, tg := newRef(s), newRef(s)
				for i := range p.Data {
					p.Data[i] = grid[rng.Intn(len(grid))]
					tg.Data[i] = grid[rng.Intn(len(grid))]
				}
				if lc.name == "MSE" {
					p, tg = randRef(rng, s, -1e3, 1e3), randRef(rng, s, -1e3, 1e3)
				}
				key := "loss:" + lc.name
				guard(r, key, func() {
					l, err := lc.apply(toT(p, false), toT(tg, false))
					if err != nil {
						r.fail(key+":error", err.Error())
						return
					}
					if len(l.Shape()) != 0 {
						r.fail(key+":shape", fmt.Sprint(l.Shape()))
						return
					}
					v, _ := l.At()
					want := lc.fwd(p, tg)
					if math.IsNaN(v) || math.IsInf(v, 0) || v < 0 || !closeTo(v, want, 1e-9) {
						r.fail(key+":value", fmt.Sprintf("p=%v t=%v: got %v want %v", p.Data, tg.Data, v, want))
						return
					}
					l2, _ := lc.apply(toT(p, true), toT(tg, true))
					v2, _ := l2.At()
					if v2 != v {
						r.fail(key+":tracking-dependent", fmt.Sprintf("%v vs %v", v, v2))
						return
					}
					r.ok(fmt.Sprintf("%s shape %v", lc.name, s))
				})
			}
		}
	}
}

func TestLossGrads(t *testing.T) {
	r := newReporter("TestLossGrads")
	defer r.done(t)
	rng := rand.New(rand.NewSource(seed()))
	grid := []float64{0, 1, 0.5, 0.25, 0.9, eps / 2, 1 - eps/2, 0.1}
	for _, lc := range lossCases() {
		for _, s := range lossShapes(lc.rank) {
			for rep := 0; rep < 6; rep++ {
				p, tg := newRef(s), randRef(rng, s, 0, 1)
				for i := range p.Data {
					p.Data[i] = grid[rng.Intn(len(grid))]
				}
				if lc.name == "MSE" {
					p = randRef(rng, s, -2, 2)
				}
				for _, upstream := range []bool{false, true} {
					key := "lossgrad:" + lc.name
					if upstream {
						key += "/upstream"
					}
					guard(r, key, func() {
						var leaf, pred tensor.Tensor
						if upstream {
							// the prediction is the result of earlier tracked operations: p = (q * 2) * 0.5
							leaf = toT(p, true)
							pred = leaf.Scale(2).Scale(0.5)
						} else {
							leaf = toT(p, true)
							pred = leaf
						}
						tt := toT(tg, false)
						l, err := lc.apply(pred, tt)
						if err != nil {
							r.fail(key+":error", err.Error())
							return
						}
						if err := tensor.BackPropagate(l); err != nil {
							r.fail(key+":backprop-error", err.Error())
							return
						}
						if tt.Gradient() != nil {
							r.fail(key+":untracked-gradient", "target received a gradient")
						}
						g := leaf.Gradient()
						if g == nil || !sameShape(g.Shape(), s) {
							r.fail(key+":shape", "missing gradient or wrong shape")
							return
						}
						gr := fromT(g)
						for i := range p.Data {
							want, ok := lc.grad(p, tg, i)
							if !ok {
								continue
							}
							clipped := lc.name != "MSE" && (p.Data[i] < eps || p.Data[i] > 1-eps)
							sub := ":interior"
							if clipped {
								sub = ":clipped"
							}
							if !closeTo(gr.Data[i], want, 1e-7) {
								r.fail(key+sub, fmt.Sprintf("p=%v t=%v position %d: gradient %v, want %v", p.Data, tg.Data, i, gr.Data[i], want))
								return
							}
						}
						r.ok(fmt.Sprintf("%s shape %v upstream=%v", lc.name, s, upstream))
					})
				}
			}
		}
	}
}

/* ---------------- C14 / C15: activations ---------------- */

type actCase struct {
	name string
	mk   func(rank int) (interface {
		Forward(...tensor.Tensor) (tensor.Tensor, error)
	}, int, bool)
	f  func(x float64) float64
	df func(x float64) (float64, bool)
}

func TestActivationValues(t *testing.T) {
	r := newReporter("TestActivationValues")
	defer r.done(t)
	rng := rand.New(rand.NewSource(seed()))
	special := []float64{0, math.Copysign(0, -1), 700, -700, 1e-300, -3, 3}
	pw := map[string]struct {
		fwd func(tensor.Tensor) (tensor.Tensor, error)
		f   func(float64) float64
	}{
		"Relu":      {func(x tensor.Tensor) (tensor.Tensor, error) { return activations.NewRelu().Forward(x) }, func(v float64) float64 { return math.Max(0, v) }},
		"LeakyRelu": {func(x tensor.Tensor) (tensor.Tensor, error) { return activations.NewLeakyRelu(nil).Forward(x) }, func(v float64) float64 { return math.Max(0, v) + 0.01*math.Min(0, v) }},
		"LeakyRelu/0.3": {func(x tensor.Tensor) (tensor.Tensor, error) {
			return activations.NewLeakyRelu(&activations.LeakyReluConfig{M: 0.3}).Forward(x)
		}, func(v float64) float64 { return math.Max(0, v) + 0.3*math.Min(0, v) }},
		"Sigmoid": {func(x tensor.Tensor) (tensor.Tensor, error) { return activations.NewSigmoid().Forward(x) }, func(v float64) float64 { return 1 / (1 + math.Exp(-v)) }},
		"Tanh":    {func(x tensor.Tensor) (tensor.Tensor, error) { return activations.NewTanh().Forward(x) }, math.Tanh},
	}
	for _, shape := range shapes(0, 3, 3) {
		a := randRef(rng, shape, -4, 4)
		for i := range a.Data {
			if rng.Intn(3) == 0 {
				a.Data[i] = special[rng.Intn(len(special))]
			}
		}
		for name, c := range pw {
			guard(r, "act:"+name, func() {
				got, err := c.fwd(toT(a, false))
				if err != nil {
					r.fail("act:"+name+":error", err.Error())
				} else if msg := eqRef(got, map1(a, c.f), 1e-12); msg != "" {
					r.fail("act:"+name, fmt.Sprintf("shape %v: %s", shape, msg))
				} else {
					r.ok(fmt.Sprintf("%s %v", name, shape))
				}
			})
		}
		// Softmax along every dimension
		for d := 0; d < len(shape); d++ {
			key := "act:Softmax"
			if d != 0 {
				key = "act:Softmax/dim>0"
			}
			guard(r, key, func() {
				sm, err := activations.NewSoftmax(&activations.SoftmaxConfig{Dim: d})
				if err != nil {
					r.fail(key+":config", err.Error())
					return
				}
				b := map1(a, func(v float64) float64 { return math.Mod(v, 20) })
				got, err := sm.Forward(toT(b, false))
				if err != nil {
					r.fail(key+":error", fmt.Sprintf("shape %v dim %d: %v", shape, d, err))
					return
				}
				e := map1(b, math.Exp)
				s := reduceAlong(e, d, sSum)
				want := newRef(shape)
				forEach(shape, func(idx []int) {
					want.Data[want.pos(idx)] = e.at(idx) / s.at(append(append([]int{}, idx[:d]...), idx[d+1:]...))
				})
				if msg := eqRef(got, want, 1e-12); msg != "" {
					r.fail(key+":value", fmt.Sprintf("shape %v dim %d: %s", shape, d, msg))
				} else {
					r.ok(fmt.Sprintf("Softmax %v dim %d", shape, d))
				}
			})
		}
	}
}

func TestActivationGrads(t *testing.T) {
	r := newReporter("TestActivationGrads")
	defer r.done(t)
	rng := rand.New(rand.NewSource(seed()))
	type ac struct {
		fwd func(tensor.Tensor) (tensor.Tensor, error)
		d   func(x float64) (lo, hi float64)
	}
	exact := func(f func(float64) float64) func(float64) (float64, float64) {
		return func(x float64) (float64, float64) { v := f(x); return v, v }
	}
	sig := func(v float64) float64 { return 1 / (1 + math.Exp(-v)) }
	cases := map[string]ac{
		"Relu": {func(x tensor.Tensor) (tensor.Tensor, error) { return activations.NewRelu().Forward(x) }, func(x float64) (float64, float64) {
			if x > 0 {
				return 1, 1
			} else if x < 0 {
				return 0, 0
			}
			return 0, 1
		}},
		"LeakyRelu": {func(x tensor.Tensor) (tensor.Tensor, error) {
			return activations.NewLeakyRelu(&activations.LeakyReluConfig{M: 0.2}).Forward(x)
		}, func(x float64) (float64, float64) {
			if x > 0 {
				return 1, 1
			} else if x < 0 {
				return 0.2, 0.2
			}
			return 0.2, 1
		}},
		"Sigmoid": {func(x tensor.Tensor) (tensor.Tensor, error) { return activations.NewSigmoid().Forward(x) }, exact(func(x float64) float64 { return sig(x) * (1 - sig(x)) })},
		"Tanh":    {func(x tensor.Tensor) (tensor.Tensor, error) { return activations.NewTanh().Forward(x) }, exact(func(x float64) float64 { return 1 - math.Tanh(x)*math.Tanh(x) })},
	}
	for _, shape := range shapes(0, 3, 3) {
		a := randRef(rng, shape, -3, 3)
		for i := range a.Data {
			if rng.Intn(3) == 0 {
				a.Data[i] = 0
			}
		}
		for name, c := range cases {
			for _, chain := range []bool{false, true} {
				key := "actgrad:" + name
				if chain {
					key += "/chain"
				}
				guard(r, key, func() {
					leaf := toT(a, true)
					in := tensor.Tensor(leaf)
					if chain {
						in = leaf.Scale(2).Scale(0.5) // the activation input is an intermediate of a deeper graph
					}
					y, err := c.fwd(in)
					if err != nil {
						r.fail(key+":error", err.Error())
						return
					}
					w := randRef(rng, shape, 0.5, 2)
					z, _ := y.Mul(toT(w, false))
					if err := tensor.BackPropagate(z); err != nil {
						r.fail(key+":backprop-error", err.Error())
						return
					}
					g := leaf.Gradient()
					if g == nil || !sameShape(g.Shape(), shape) {
						r.fail(key+":shape", "missing gradient or wrong shape")
						return
					}
					gr := fromT(g)
					for i := range a.Data {
						lo, hi := c.d(a.Data[i])
						v := gr.Data[i] / w.Data[i]
						sub := ""
						if a.Data[i] == 0 {
							sub = ":at0"
						}
						if math.IsNaN(v) || v < lo-1e-9 || v > hi+1e-9 {
							r.fail(key+sub, fmt.Sprintf("x=%v: derivative %v, want in [%v,%v]", a.Data[i], v, lo, hi))
							return
						}
					}
					r.ok(fmt.Sprintf("%s %v chain=%v", name, shape, chain))
				})
			}
		}
		for d := 0; d < len(shape); d++ {
			key := "actgrad:Softmax"
			if d != 0 {
				key = "actgrad:Softmax/dim>0"
			}
			// the normaliser is expanded along d by broadcasting when the dimension is larger than 1
			if shape[d] > 1 {
				key += ":expanded"
			}
			guard(r, key, func() {
				sm, _ := activations.NewSoftmax(&activations.SoftmaxConfig{Dim: d})
				c := opCase{name: "Softmax", arity: 1, apply: func(xs []tensor.Tensor) (tensor.Tensor, error) { return sm.Forward(xs[0]) }}
				leaf := toT(a, true)
				y, err := c.apply([]tensor.Tensor{leaf})
				if err != nil {
					r.fail(key+":error", fmt.Sprintf("shape %v dim %d: %v", shape, d, err))
					return
				}
				w := randRef(rng, shape, 0.5, 2)
				z, _ := y.Mul(toT(w, false))
				if err := tensor.BackPropagate(z); err != nil {
					r.fail(key+":backprop-error", err.Error())
					return
				}
				// analytic: p_i * (g_i - sum_j p_j g_j) along d
				e := map1(a, math.Exp)
				s := reduceAlong(e, d, sSum)
				p := newRef(shape)
				forEach(shape, func(idx []int) { p.Data[p.pos(idx)] = e.at(idx) / s.at(without2(idx, d)) })
				pg := newRef(shape)
				for i := range pg.Data {
					pg.Data[i] = p.Data[i] * w.Data[i]
				}
				spg := reduceAlong(pg, d, sSum)
				want := newRef(shape)
				forEach(shape, func(idx []int) { want.Data[want.pos(idx)] = p.at(idx) * (w.at(idx) - spg.at(without2(idx, d))) })
				if msg := eqRef(leaf.Gradient(), want, 1e-9); msg != "" {
					r.fail(key+":value", fmt.Sprintf("shape %v dim %d: %s", shape, d, msg))
				} else {
					r.ok(fmt.Sprintf("Softmax grad %v dim %d", shape, d))
				}
			})
		}
	}
}

func without2(idx []int, d int) []int { return append(append([]int{}, idx[:d]...), idx[d+1:]...) }

/* ---------------- C16: FC ---------------- */

type fixedInit struct{ a Ref }

func (f fixedInit) Init(shape []int) (tensor.Tensor, error) { return toT(f.a, true), nil }

func TestFC(t *testing.T) {
	r := newReporter("TestFC")
	defer r.done(t)
	rng := rand.New(rand.NewSource(seed()))
	for B := 1; B <= 3; B++ {
		for D := 1; D <= 3; D++ {
			for O := 1; O <= 3; O++ {
				W, Bi := randRef(rng, []int{O}, -2, 2), randRef(rng, []int{O}, -2, 2)
				x := randRef(rng, []int{B, D}, -2, 2)
				if D == 2 && O == 2 {
					// a weight below the library's equality tolerance against a huge input (seed C16-5: a kernel that skips "zero" entries)
					W.Data[0], x.Data[0] = []float64{1e-250, -5e-241, 1e-240}[B-1], 1e260
				}
				guard(r, "fc", func() {
					fc, err := layers.NewFC(&layers.FCConfig{Inputs: D, Outputs: O, Initializers: map[string]layers.Initializer{"Weight": fixedInit{W}, "Bias": fixedInit{Bi}}})
					if err != nil {
						r.fail("fc:config", err.Error())
						return
					}
					xt := toT(x, true)
					y, err := fc.Forward(xt)
					if err != nil {
						r.fail("fc:error", err.Error())
						return
					}
					want := newRef([]int{B, O})
					for b := 0; b < B; b++ {
						s := 0.
						for d := 0; d < D; d++ {
							s += x.at([]int{b, d})
						}
						for o := 0; o < O; o++ {
							want.Data[b*O+o] = W.Data[o]*s + Bi.Data[o]
						}
					}
					if msg := eqRef(y, want, 1e-10); msg != "" {
						r.fail("fc:value", msg)
						return
					}
					// gradients with a non-uniform upstream weighting
					w := randRef(rng, []int{B, O}, 0.5, 2)
					z, _ := y.Mul(toT(w, false))
					if err := tensor.BackPropagate(z); err != nil {
						r.fail("fc:backprop-error", err.Error())
						return
					}
					gW, gB, gx := newRef([]int{O}), newRef([]int{O}), newRef([]int{B, D})
					for b := 0; b < B; b++ {
						s := 0.
						for d := 0; d < D; d++ {
							s += x.at([]int{b, d})
						}
						for o := 0; o < O; o++ {
							gW.Data[o] += w.Data[b*O+o] * s
							gB.Data[o] += w.Data[b*O+o]
							for d := 0; d < D; d++ {
								gx.Data[b*D+d] += w.Data[b*O+o] * W.Data[o]
							}
						}
					}
					ws := fc.Weights()
					// the parameters are broadcast over the batch: with batch > 1 their gradients go through the Broadcast rule
					bk := ":batch1"
					if B > 1 {
						bk = ":batch>1"
					}
					if msg := eqRef((*ws[0].Value).Gradient(), gW, 1e-9); msg != "" {
						r.fail("fc:grad-W"+bk, fmt.Sprintf("B=%d D=%d O=%d: %s", B, D, O, msg))
					}
					if msg := eqRef((*ws[1].Value).Gradient(), gB, 1e-9); msg != "" {
						r.fail("fc:grad-B"+bk, fmt.Sprintf("B=%d D=%d O=%d: %s", B, D, O, msg))
					}
					if msg := eqRef(xt.Gradient(), gx, 1e-9); msg != "" {
						r.fail("fc:grad-x", fmt.Sprintf("B=%d D=%d O=%d: %s", B, D, O, msg))
					}
					// parameter replacement through the Weights() pointers is seen by the next Forward
					W2 := randRef(rng, []int{O}, -2, 2)
					*ws[0].Value = toT(W2, true)
					y2, err := fc.Forward(toT(x, false))
					if err != nil {
						r.fail("fc:error-after-replace", err.Error())
						return
					}
					for b := 0; b < B; b++ {
						s := 0.
						for d := 0; d < D; d++ {
							s += x.at([]int{b, d})
						}
						for o := 0; o < O; o++ {
							want.Data[b*O+o] = W2.Data[o]*s + Bi.Data[o]
						}
					}
					if msg := eqRef(y2, want, 1e-10); msg != "" {
						r.fail("fc:live-parameters", msg)
						return
					}
					r.ok(fmt.Sprintf("FC B=%d D=%d O=%d", B, D, O))
				})
			}
		}
	}
	// default initializers
	guard(r, "fc:default", func() {
		fc, err := layers.NewFC(&layers.FCConfig{Inputs: 3, Outputs: 2})
		if err != nil || !sameShape(fc.Weight.Shape(), []int{2}) || !sameShape(fc.Bias.Shape(), []int{2}) {
			r.fail("fc:default", fmt.Sprint(err))
		} else {
			r.ok("FC defaults")
		}
	})
}

/* ---------------- C11: training loop ---------------- */

func TestTraining(t *testing.T) {
	r := newReporter("TestTraining")
	defer r.done(t)
	rng := rand.New(rand.NewSource(seed()))
	type act interface {
		Forward(...tensor.Tensor) (tensor.Tensor, error)
	}
	sm0, _ := activations.NewSoftmax(nil)
	sm1, _ := activations.NewSoftmax(&activations.SoftmaxConfig{Dim: 1})
	acts := map[string]act{"Relu": activations.NewRelu(), "Sigmoid": activations.NewSigmoid(), "Tanh": activations.NewTanh(), "LeakyRelu": activations.NewLeakyRelu(nil), "Softmax0": sm0, "Softmax1": sm1}
	type lossI interface {
		Compute(tensor.Tensor, tensor.Tensor) (tensor.Tensor, error)
	}
	for an, a := range acts {
		for _, ln := range []string{"MSE", "BCE", "CE"} {
			for B := 1; B <= 3; B++ {
				D, O := 1+rng.Intn(3), 1+rng.Intn(3)
				var l lossI
				switch ln {
				case "MSE":
					l = losses.NewMSE()
				case "BCE":
					l = losses.NewBCE()
				default:
					l = losses.NewCE()
				}
				if ln != "CE" {
					O = 1 // MSE / BCE take rank-1 predictions: one output unit, squeezed
				}
				key := "train:" + an + "/" + ln
				// with batch > 1 (or a Softmax over more than one class) the step goes through the Broadcast rule with an
				// expansion factor > 1; the key says so, so that a failure without any expansion is a different finding
				if B > 1 || (an == "Softmax1" && O > 1) {
					key += ":batch>1"
				} else {
					key += ":batch1"
				}
				guard(r, key, func() {
					W0, B0 := randRef(rng, []int{O}, 0.2, 0.8), randRef(rng, []int{O}, -0.2, 0.2)
					fc, _ := layers.NewFC(&layers.FCConfig{Inputs: D, Outputs: O, Initializers: map[string]layers.Initializer{"Weight": fixedInit{W0}, "Bias": fixedInit{B0}}})
					x := randRef(rng, []int{B, D}, 0.1, 0.9)
					var tg Ref
					if ln == "CE" {
						tg = randRef(rng, []int{B, O}, 0, 1)
					} else {
						tg = randRef(rng, []int{B}, 0, 1)
					}
					lr := 0.05
					opt := optimizers.NewSGD(&optimizers.SGDConfig{LearningRate: lr})
					forward := func(w, b Ref) (tensor.Tensor, tensor.Tensor, tensor.Tensor, error) {
						wt, bt := toT(w, true), toT(b, true)
						fc2 := &layers.FC{Weight: wt, Bias: bt}
						y, err := fc2.Forward(toT(x, false))
						if err != nil {
							return nil, nil, nil, err
						}
						y, err = a.Forward(y)
						if err != nil {
							return nil, nil, nil, err
						}
						if ln != "CE" {
							if y, err = y.Squeeze(1); err != nil {
								return nil, nil, nil, err
							}
						}
						lv, err := l.Compute(y, toT(tg, false))
						return lv, wt, bt, err
					}
					lossOf := func(w, b Ref) float64 {
						lv, _, _, err := forward(w, b)
						if err != nil {
							return math.NaN()
						}
						v, _ := lv.At()
						return v
					}
					w, b := W0, B0
					for step := 0; step < 3; step++ {
						ws := fc.Weights()
						y, err := fc.Forward(toT(x, false))
						if err == nil {
							y, err = a.Forward(y)
						}
						if err == nil && ln != "CE" {
							y, err = y.Squeeze(1)
						}
						if err != nil {
							r.fail(key+":forward-error", err.Error())
							return
						}
						lv, err := l.Compute(y, toT(tg, false))
						if err != nil {
							r.fail(key+":loss-error", err.Error())
							return
						}
						if err := tensor.BackPropagate(lv); err != nil {
							r.fail(key+":backprop-error", err.Error())
							return
						}
						// reference gradient by finite differences of the same loss at the current weights
						gw := numGrad(func(v []Ref) float64 { return lossOf(v[0], v[1]) }, []Ref{w, b}, 0)
						gb := numGrad(func(v []Ref) float64 { return lossOf(v[0], v[1]) }, []Ref{w, b}, 1)
						for _, wp := range ws {
							if err := opt.Update(wp.Value); err != nil {
								r.fail(key+":update-error", err.Error())
								return
							}
							(*wp.Value).ResetGradContext(true)
						}
						nw, nb := newRef(w.Shape), newRef(b.Shape)
						for i := range w.Data {
							nw.Data[i] = w.Data[i] - lr*gw.Data[i]
							nb.Data[i] = b.Data[i] - lr*gb.Data[i]
						}
						if msg := eqRef(fc.Weight, nw, 1e-5); msg != "" {
							r.fail(key+":trajectory-W", fmt.Sprintf("step %d B=%d D=%d O=%d: %s", step, B, D, O, msg))
							return
						}
						if msg := eqRef(fc.Bias, nb, 1e-5); msg != "" {
							r.fail(key+":trajectory-B", fmt.Sprintf("step %d B=%d D=%d O=%d: %s", step, B, D, O, msg))
							return
						}
						w, b = fromT(fc.Weight), fromT(fc.Bias)
						if fc.Weight.Gradient() != nil || fc.Bias.Gradient() != nil {
							r.fail(key+":leak", "gradient survives the reset")
							return
						}
					}
					r.ok(fmt.Sprintf("%s/%s B=%d D=%d O=%d", an, ln, B, D, O))
				})
			}
		}
	}
	// omitting the reset is reported by the next update
	guard(r, "train:omitted-reset", func() {
		fc, _ := layers.NewFC(&layers.FCConfig{Inputs: 2, Outputs: 1})
		opt := optimizers.NewSGD(nil)
		x := toT(Ref{Shape: []int{1, 2}, Data: []float64{0.5, 0.25}}, false)
		step := func(reset bool) error {
			y, _ := fc.Forward(x)
			y, _ = y.Squeeze(1)
			lv, _ := losses.NewMSE().Compute(y, toT(Ref{Shape: []int{1}, Data: []float64{1}}, false))
			if err := tensor.BackPropagate(lv); err != nil {
				return err
			}
			for _, wp := range fc.Weights() {
				if err := opt.Update(wp.Value); err != nil {
					return err
				}
				if reset {
					(*wp.Value).ResetGradContext(true)
				}
			}
			return nil
		}
		if err := step(false); err != nil {
			r.fail("train:omitted-reset", "first step failed: "+err.Error())
			return
		}
		if err := step(false); err == nil {
			r.fail("train:omitted-reset", "second step without ResetGradContext did not report an error")
		} else {
			r.ok("omitted reset reported")
		}
	})
}

/* ---------------- C18: random constructors and initializers ---------------- */

func TestRandom(t *testing.T) {
	r := newReporter("TestRandom")
	defer r.done(t)
	moments := func(a Ref) (float64, float64) { return sMean(a.Data), sStd(a.Data) }
	n := []int{40, 50, 10}
	check := func(key string, x tensor.Tensor, err error, lo, hi, mean, std float64, bounded bool) {
		if err != nil {
			r.fail(key+":error", err.Error())
			return
		}
		if !sameShape(x.Shape(), n) {
			r.fail(key+":shape", fmt.Sprint(x.Shape()))
			return
		}
		a := fromT(x)
		distinct := map[float64]bool{}
		for _, v := range a.Data {
			distinct[v] = true
			if bounded && (v < lo || v >= hi) {
				r.fail(key+":support", fmt.Sprintf("%v outside [%v,%v)", v, lo, hi))
				return
			}
		}
		if len(distinct) < len(a.Data)*9/10 {
			r.fail(key+":fresh-draws", fmt.Sprintf("only %d distinct values among %d elements", len(distinct), len(a.Data)))
			return
		}
		m, s := moments(a)
		if math.Abs(m-mean) > 0.05*std+1e-9 || math.Abs(s-std) > 0.05*std {
			r.fail(key+":moments", fmt.Sprintf("mean %v std %v, want %v %v", m, s, mean, std))
			return
		}
		// lag-1 correlation along the last dimension (independence of positions)
		c := 0.
		for i := 1; i < len(a.Data); i++ {
			c += (a.Data[i] - m) * (a.Data[i-1] - m)
		}
		c /= float64(len(a.Data)-1) * s * s
		if math.Abs(c) > 0.05 {
			r.fail(key+":independence", fmt.Sprintf("lag-1 correlation %v", c))
			return
		}
		if x.Gradient() != nil {
			r.fail(key+":gradient", "fresh tensor has a gradient")
		}
		r.ok(key)
	}
	u := func(l, h float64) (float64, float64) { return (l + h) / 2, (h - l) / math.Sqrt(12) }
	x, err := tensor.RandU(n, -1, 3, nil)
	m, s := u(-1, 3)
	check("RandU", x, err, -1, 3, m, s, true)
	x, err = tensor.RandN(n, 2, 0.5, nil)
	check("RandN", x, err, 0, 0, 2, 0.5, false)
	ini, _ := initializers.NewUniform(nil)
	x, err = ini.Init(n)
	m, s = u(-0.05, 0.05)
	check("Uniform/default", x, err, -0.05, 0.05, m, s, true)
	in2, _ := initializers.NewNormal(nil)
	x, err = in2.Init(n)
	check("Normal/default", x, err, 0, 0, 0, 0.05, false)
	hu, _ := initializers.NewHeUniform(&initializers.HeUniformConfig{FanIn: 6})
	x, err = hu.Init(n)
	check("HeUniform", x, err, -1, 1, 0, 2/math.Sqrt(12), true)
	hn, _ := initializers.NewHeNormal(&initializers.HeNormalConfig{FanIn: 8})
	x, err = hn.Init(n)
	check("HeNormal", x, err, 0, 0, 0, 0.5, false)
	xu, _ := initializers.NewXavierUniform(&initializers.XavierUniformConfig{FanIn: 2, FanOut: 4})
	x, err = xu.Init(n)
	check("XavierUniform", x, err, -1, 1, 0, 2/math.Sqrt(12), true)
	xn, _ := initializers.NewXavierNormal(&initializers.XavierNormalConfig{FanIn: 3, FanOut: 5})
	x, err = xn.Init(n)
	check("XavierNormal", x, err, 0, 0, 0, 0.5, false)
	f := initializers.NewFull(&initializers.FullConfig{Value: 1.5})
	x, err = f.Init([]int{2, 3})
	if err != nil || eqRef(x, Ref{Shape: []int{2, 3}, Data: []float64{1.5, 1.5, 1.5, 1.5, 1.5, 1.5}}, 0) != "" {
		r.fail("Full", fmt.Sprint(err))
	} else {
		r.ok("Full")
	}
	// draws are fresh on every call
	a1, _ := tensor.RandU([]int{5}, 0, 1, nil)
	a2, _ := tensor.RandU([]int{5}, 0, 1, nil)
	if eq, _ := a1.Equals(a2); eq {
		r.fail("RandU:repeat", "two calls returned the same values")
	}
	// initializers return tracked leaves
	y := x.Scale(2)
	if err := tensor.BackPropagate(y); err != nil || x.Gradient() == nil {
		r.fail("initializer:tracked", "initialized tensor is not a tracked leaf")
	}
}

/* ---------------- C19: accuracy ---------------- */

func TestAccuracyPartition(t *testing.T) {
	r := newReporter("TestAccuracyPartition")
	defer r.done(t)
	rng := rand.New(rand.NewSource(seed()))
	for n := 1; n <= 8; n++ {
		p, tg := newRef([]int{n}), newRef([]int{n})
		match := 0
		// "arbitrary label values": small integers, and - in every second data set - labels that are not numbers at all
		// (a NaN equals nothing, itself included) or differ by less than anything a label could mean but more than the
		// library's tolerance
		odd := []float64{math.NaN(), 1e-200, -1e-200, 0.5}
		for i := 0; i < n; i++ {
			p.Data[i] = float64(rng.Intn(3))
			tg.Data[i] = float64(rng.Intn(3))
			if n%2 == 0 && rng.Intn(3) == 0 {
				p.Data[i] = odd[rng.Intn(len(odd))]
			}
			if n%2 == 0 && rng.Intn(3) == 0 {
				tg.Data[i] = odd[rng.Intn(len(odd))]
			}
			if p.Data[i] == tg.Data[i] {
				match++
			}
		}
		want := float64(match) / float64(n)
		// every split into <= 3 consecutive batches
		for c1 := 0; c1 <= n; c1++ {
			for c2 := c1; c2 <= n; c2++ {
				acc := metrics.NewAccuracy()
				if v, _ := acc.Result(); v != 0 {
					r.fail("accuracy:initial", fmt.Sprint(v))
				}
				cuts := []int{0, c1, c2, n}
				for k := 0; k < 3; k++ {
					lo, hi := cuts[k], cuts[k+1]
					// interleave invalid calls, which must not change the counts
					_ = acc.Accumulate(nil, nil)
					_ = acc.Accumulate(toT(Ref{Shape: []int{2}, Data: []float64{1, 1}}, false), toT(Ref{Shape: []int{3}, Data: []float64{1, 1, 1}}, false))
					_ = acc.Accumulate(toT(Ref{Shape: []int{1, 1}, Data: []float64{1}}, false), toT(Ref{Shape: []int{1, 1}, Data: []float64{1}}, false))
					if hi == lo {
						continue
					}
					if err := acc.Accumulate(toT(Ref{Shape: []int{hi - lo}, Data: p.Data[lo:hi]}, false), toT(Ref{Shape: []int{hi - lo}, Data: tg.Data[lo:hi]}, false)); err != nil {
						r.fail("accuracy:error", err.Error())
					}
				}
				got, err := acc.Result()
				if err != nil || !closeTo(got, want, 1e-12) || got < 0 || got > 1 {
					r.fail("accuracy:partition", fmt.Sprintf("n=%d cuts %v: got %v want %v", n, cuts, got, want))
				} else {
					r.ok(fmt.Sprintf("n=%d cuts %v", n, cuts))
				}
			}
		}
	}
}

/* ---------------- C20: concurrency (run with -race) ---------------- */

func TestConcurrent(t *testing.T) {
	r := newReporter("TestConcurrent")
	defer r.done(t)
	rng := rand.New(rand.NewSource(seed()))
	W := toT(randRef(rng, []int{3}, -1, 1), true) // shared tracked parameter
	X := toT(randRef(rng, []int{2, 3}, -1, 1), false)
	fc := &layers.FC{Weight: W, Bias: toT(randRef(rng, []int{3}, -1, 1), true)}
	seq := func() Ref {
		y, _ := fc.Forward(X)
		y, _ = activations.NewSigmoid().Forward(y)
		return fromT(y)
	}
	want := seq()
	var wg sync.WaitGroup
	for g := 0; g < 8; g++ {
		wg.Add(1)
		go func(g int) {
			defer wg.Done()
			for i := 0; i < 50; i++ {
				if msg := eqRef(toT(seq(), false), want, 0); msg != "" {
					r.fail("concurrent:forward", msg)
					return
				}
				// graphs that share only untracked tensors may be back-propagated concurrently
				leaf := toT(Ref{Shape: []int{2, 3}, Data: []float64{1, 2, 3, 4, 5, 6}}, true)
				z, _ := leaf.Mul(X)
				if err := tensor.BackPropagate(z); err != nil || eqRef(leaf.Gradient(), fromT(X), 0) != "" {
					r.fail("concurrent:backprop", fmt.Sprint(err))
					return
				}
				if _, err := tensor.RandU([]int{4}, 0, 1, nil); err != nil {
					r.fail("concurrent:random", err.Error())
				}
				r.ok("")
			}
		}(g)
	}
	wg.Wait()
}

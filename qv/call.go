package main

import (
	"fmt"
	"go/ast"
	"go/parser"
	"go/token"
	"go/types"
	"strings"
)

// ---------------------------------------------------------------------------------------------
// Calls
// ---------------------------------------------------------------------------------------------

func (r *UnitRun) evalCall(st *State, e *ast.CallExpr) Val {
	// conversion
	if tv, ok := r.info.Types[e.Fun]; ok && tv.IsType() {
		v := r.evalExpr(st, e.Args[0])
		return r.convertExplicit(st, v, tv.Type, e)
	}
	// builtins
	if id, ok := e.Fun.(*ast.Ident); ok {
		if b, ok := r.info.ObjectOf(id).(*types.Builtin); ok {
			return r.evalBuiltin(st, b.Name(), e)
		}
	}
	// qualified package functions and methods
	if sel, ok := e.Fun.(*ast.SelectorExpr); ok {
		if id, ok := sel.X.(*ast.Ident); ok {
			if pn, ok := r.info.ObjectOf(id).(*types.PkgName); ok {
				switch pn.Imported().Path() {
				case "fmt":
					for _, a := range e.Args {
						r.evalExpr(st, a)
					}
					if sel.Sel.Name == "Errorf" {
						return Val{K: KErr, T: "false"}
					}
					panic(toolLimit("fmt." + sel.Sel.Name))
				case "math":
					return r.evalMath(st, sel.Sel.Name, e)
				case "slices":
					return r.evalSlicesPkg(st, sel.Sel.Name, e)
				}
				fn, _ := r.info.ObjectOf(sel.Sel).(*types.Func)
				if u, ok := r.prog.ByObj[fn]; ok {
					args := r.evalArgs(st, e, fn.Type().(*types.Signature))
					return r.applyContract(st, u, nil, args, e)
				}
				panic(toolLimit("call of external function " + types.ExprString(e.Fun)))
			}
		}
		if s, ok := r.info.Selections[sel]; ok && s.Kind() == types.MethodVal {
			fn := s.Obj().(*types.Func)
			if fn.Pkg() != nil && strings.Contains(fn.Pkg().Path(), "distuv") {
				return r.evalDistuv(st, sel, e)
			}
			recv := r.evalExpr(st, sel.X)
			sig := fn.Type().(*types.Signature)
			var u *Unit
			if cu, ok := r.prog.ByObj[fn]; ok {
				u = cu
			} else {
				// interface method
				rt := types.Unalias(s.Recv())
				if isTensorType(rt) {
					u = r.prog.Units["cputensor.CPUTensor."+fn.Name()]
				} else {
					u = r.prog.Units[shortName(fn.Pkg().Path())+"."+typeName(rt)+"."+fn.Name()]
				}
				if u == nil {
					panic(toolLimit("no contract for interface method " + typeName(rt) + "." + fn.Name()))
				}
			}
			// nil receiver obligation
			if recv.K == KRef {
				r.oblige(st, "nil", fmt.Sprintf("recv%d", r.callOrd[e]), not(eq(recv.T, r.prog.World.nilOf(recv.Sort))), e, "method call on nil receiver: "+types.ExprString(e.Fun), nil)
			}
			args := r.evalArgs(st, e, sig)
			return r.applyContract(st, u, &recv, args, e)
		}
		// call of a func-typed field
		if s, ok := r.info.Selections[sel]; ok && s.Kind() == types.FieldVal {
			fv := r.evalExpr(st, sel)
			sig := r.typeOf(sel).Underlying().(*types.Signature)
			args := r.evalArgs(st, e, sig)
			owner := typeName(s.Recv())
			return r.callFuncValue(st, fv, args, e, []string{r.funcTypeUnitName(r.typeOf(sel)), r.unit.Short + "." + owner + "." + sel.Sel.Name})
		}
	}
	// plain identifiers: package function, local closure variable, func parameter
	if id, ok := e.Fun.(*ast.Ident); ok {
		obj := r.info.ObjectOf(id)
		if fn, ok := obj.(*types.Func); ok {
			u, ok := r.prog.ByObj[fn]
			if !ok {
				panic(toolLimit("no unit for function " + id.Name))
			}
			args := r.evalArgs(st, e, fn.Type().(*types.Signature))
			return r.applyContract(st, u, nil, args, e)
		}
		if v, ok := obj.(*types.Var); ok {
			sig := v.Type().Underlying().(*types.Signature)
			if u, ok := r.varUnit[v]; ok {
				args := r.evalArgs(st, e, sig)
				return r.applyContract(st, u, nil, args, e)
			}
			if u := r.lookupVarUnit(v); u != nil {
				args := r.evalArgs(st, e, sig)
				return r.applyContract(st, u, nil, args, e)
			}
			fv := r.evalExpr(st, id)
			args := r.evalArgs(st, e, sig)
			return r.callFuncValue(st, fv, args, e, []string{r.funcTypeUnitName(v.Type()), r.unit.Name + "." + id.Name, r.rootUnit().Name + "." + id.Name})
		}
	}
	panic(toolLimit("unsupported call " + types.ExprString(e.Fun)))
}

func (r *UnitRun) rootUnit() *Unit {
	u := r.unit
	for u.Parent != nil {
		u = u.Parent
	}
	return u
}

// lookupVarUnit finds the closure unit assigned to a local func variable in an enclosing unit.
func (r *UnitRun) lookupVarUnit(v *types.Var) *Unit {
	root := r.rootUnit()
	var found *Unit
	ast.Inspect(root.Body, func(n ast.Node) bool {
		as, ok := n.(*ast.AssignStmt)
		if !ok || len(as.Lhs) != 1 || len(as.Rhs) != 1 {
			return true
		}
		id, ok := as.Lhs[0].(*ast.Ident)
		if !ok {
			return true
		}
		lit, ok := as.Rhs[0].(*ast.FuncLit)
		if !ok {
			return true
		}
		if r.info.ObjectOf(id) == v {
			found = r.prog.ByLit[lit]
		}
		return true
	})
	return found
}

func (r *UnitRun) funcTypeUnitName(t types.Type) string {
	t = types.Unalias(t)
	if n, ok := t.(*types.Named); ok && n.Obj().Pkg() != nil {
		return shortName(n.Obj().Pkg().Path()) + "." + n.Obj().Name()
	}
	return ""
}

func (r *UnitRun) callFuncValue(st *State, fv Val, args []Val, e *ast.CallExpr, names []string) Val {
	if fv.K != KFunc {
		panic(toolLimit("call of non-function value"))
	}
	if fv.Fn.unit != nil {
		return r.applyContract(st, fv.Fn.unit, nil, args, e)
	}
	r.needFn()
	r.oblige(st, "nil", fmt.Sprintf("fn%d", r.callOrd[e]), not(eq(fv.Fn.term, "nil_Fn")), e, "call of nil function value: "+types.ExprString(e.Fun), nil)
	for _, n := range names {
		if u, ok := r.prog.Units[n]; ok && n != "" {
			self := Val{K: KFunc, Fn: fv.Fn}
			return r.applyContractSelf(st, u, nil, args, e, &self)
		}
	}
	panic(toolLimit("no contract for function value " + types.ExprString(e.Fun) + " (tried " + strings.Join(names, ", ") + ")"))
}

func (r *UnitRun) evalArgs(st *State, e *ast.CallExpr, sig *types.Signature) []Val {
	var args []Val
	np := sig.Params().Len()
	if len(e.Args) == 1 && np > 1 {
		// f(g()) with multiple results
		v := r.evalExpr(st, e.Args[0])
		if v.K == KTuple {
			return v.Tup
		}
	}
	for i, a := range e.Args {
		v := r.evalExpr(st, a)
		var pt types.Type
		if sig.Variadic() && i >= np-1 {
			pt = sig.Params().At(np - 1).Type()
			if !e.Ellipsis.IsValid() {
				pt = pt.(*types.Slice).Elem()
			}
		} else if i < np {
			pt = sig.Params().At(i).Type()
		}
		args = append(args, r.convertTo(st, v, pt))
	}
	if sig.Variadic() && !e.Ellipsis.IsValid() {
		fixed := np - 1
		vt := sig.Params().At(np - 1).Type().(*types.Slice)
		es := r.prog.World.sortOf(vt.Elem())
		o := r.newObj("varargs", es, OwnFresh)
		arr := r.fresh("varargs_arr", fmt.Sprintf("(Array Int %s)", es))
		for i, v := range args[fixed:] {
			arr = sx("store", arr, intLit(int64(i)), r.toTerm(st, v, vt.Elem()))
		}
		st.arrs[o] = arr
		n := intLit(int64(len(args) - fixed))
		packed := Val{K: KSlice, S: &SliceVal{Obj: o, Off: "0", Len: n, Cap: n, Elem: vt.Elem(), ESrt: es}, Go: vt}
		args = append(args[:fixed:fixed], packed)
	}
	return args
}

func (r *UnitRun) convertExplicit(st *State, v Val, t types.Type, e *ast.CallExpr) Val {
	tu := types.Unalias(t)
	if b, ok := tu.Underlying().(*types.Basic); ok {
		switch {
		case b.Info()&types.IsFloat != 0:
			return Val{K: KReal, T: toReal(v), Go: t}
		case b.Info()&types.IsInteger != 0:
			if v.K == KReal {
				r.assumption("int(x) of a float64 is modelled as floor (agrees with Go's truncation for x >= 0)")
				return Val{K: KInt, T: sx("to_int", v.T), Go: t}
			}
			return Val{K: KInt, T: v.T, Go: t}
		}
	}
	return r.convertTo(st, v, t)
}

func (r *UnitRun) evalMath(st *State, name string, e *ast.CallExpr) Val {
	var args []string
	var sorts []string
	for _, a := range e.Args {
		v := r.evalExpr(st, a)
		if name == "Inf" {
			args = append(args, v.T)
			sorts = append(sorts, "Int")
		} else {
			args = append(args, toReal(v))
			sorts = append(sorts, "Real")
		}
	}
	fn := "math_" + name
	r.needMath(fn, sorts)
	return Val{K: KReal, T: sx(fn, args...)}
}

func (r *UnitRun) needMath(fn string, sorts []string) {
	r.prog.World.decls.declare(fn, fmt.Sprintf("(declare-fun %s (%s) Real)", fn, strings.Join(sorts, " ")))
	if ax, ok := mathAxioms[fn]; ok {
		r.needNamed(fn+"_ax", ax)
	}
}

func (r *UnitRun) needNamed(key, text string) {
	if !r.needs[key] {
		r.needs[key] = true
		r.needOrd = append(r.needOrd, key)
		r.extra[key] = text
	}
}

var mathAxioms = map[string]string{}

func (r *UnitRun) needDomain(name string) {
	df := domainFuncs[name]
	if strings.HasPrefix(df.smt, "math_") {
		r.needMath(df.smt, df.args)
		return
	}
	for _, d := range df.deps {
		r.needDomain(d)
	}
	r.needNamed("domain:"+name, df.decl)
}

func (r *UnitRun) needProd() {
	r.needNamed("prod", `(declare-fun prod ((Array Int Int) Int Int) Int)
(assert (forall ((a (Array Int Int)) (lo Int) (hi Int)) (! (=> (<= hi lo) (= (prod a lo hi) 1)) :pattern ((prod a lo hi)))))
(assert (forall ((a (Array Int Int)) (lo Int) (hi Int)) (! (=> (> hi lo) (= (prod a lo hi) (* (prod a lo (- hi 1)) (select a (- hi 1))))) :pattern ((prod a lo hi)))))
(assert (forall ((a (Array Int Int)) (b (Array Int Int)) (lo Int) (hi Int)) (! (=> (forall ((k Int)) (=> (and (<= lo k) (< k hi)) (= (select a k) (select b k)))) (= (prod a lo hi) (prod b lo hi))) :pattern ((prod a lo hi) (prod b lo hi)))))`)
	r.assumption("PROD-EXT (paper lemma): sequences that agree on [lo,hi) have the same product over [lo,hi)")
}

func (r *UnitRun) needSum() {
	r.needNamed("isum", `(declare-fun isum ((Array Int Int) Int Int) Int)
(assert (forall ((a (Array Int Int)) (lo Int) (hi Int)) (! (=> (<= hi lo) (= (isum a lo hi) 0)) :pattern ((isum a lo hi)))))
(assert (forall ((a (Array Int Int)) (lo Int) (hi Int)) (! (=> (> hi lo) (= (isum a lo hi) (+ (isum a lo (- hi 1)) (select a (- hi 1))))) :pattern ((isum a lo hi)))))`)
}

func (r *UnitRun) evalDistuv(st *State, sel *ast.SelectorExpr, e *ast.CallExpr) Val {
	cl, ok := sel.X.(*ast.CompositeLit)
	if !ok || sel.Sel.Name != "Rand" {
		panic(toolLimit("distuv call " + types.ExprString(e)))
	}
	kind := typeName(r.typeOf(cl))
	var p1, p2 string
	for _, el := range cl.Elts {
		kv := el.(*ast.KeyValueExpr)
		v := r.evalExpr(st, kv.Value)
		switch kv.Key.(*ast.Ident).Name {
		case "Min", "Mu":
			p1 = toReal(v)
		case "Max", "Sigma":
			p2 = toReal(v)
		}
	}
	// the draw functions and their axioms belong to the domain functions isDrawU / isDrawN
	r.needDomain("isDrawU")
	r.needDomain("isDrawN")
	r.assumption("gonum distuv.{Uniform,Normal}.Rand(): assumed contract - the k-th call returns draw(kind, p1, p2, k) and advances the ghost tick by one; Uniform draws lie in [Min, Max); that distinct ticks are independent samples of the named law is not checked")
	tick, ok := st.ghost["tick"]
	if !ok {
		tick = intV(r.fresh("tick", "Int"))
	}
	st.ghost["tick"] = intV(add(tick.T, "1"))
	return Val{K: KReal, T: sx("draw"+kind, p1, p2, tick.T)}
}

func (r *UnitRun) evalBuiltin(st *State, name string, e *ast.CallExpr) Val {
	w := r.prog.World
	switch name {
	case "len":
		v := r.evalExpr(st, e.Args[0])
		if v.K == KSlice {
			return intV(v.S.Len)
		}
		panic(toolLimit("len of " + v.String()))
	case "cap":
		v := r.evalExpr(st, e.Args[0])
		if v.K == KSlice && v.S.Cap != "" {
			return intV(v.S.Cap)
		}
		panic(toolLimit("cap of slice with unknown capacity"))
	case "min", "max":
		// the Go 1.21 builtins on integers and floats (NaN-free floats: reals)
		acc := r.evalExpr(st, e.Args[0])
		if acc.K != KInt && acc.K != KReal {
			panic(toolLimit("builtin " + name + " of " + acc.String()))
		}
		op := "<="
		if name == "max" {
			op = ">="
		}
		for _, a := range e.Args[1:] {
			v := r.evalExpr(st, a)
			if v.K != acc.K {
				panic(toolLimit("builtin " + name + " of mixed kinds"))
			}
			acc = Val{K: acc.K, T: fmt.Sprintf("(ite (%s %s %s) %s %s)", op, acc.T, v.T, acc.T, v.T), Go: acc.Go}
		}
		return acc
	case "panic":
		for _, a := range e.Args {
			r.evalExpr(st, a)
		}
		r.oblige(st, "panic", fmt.Sprintf("%d", r.callOrd[e]), "false", e, "panic(...) is unreachable", nil)
		st.dead = true
		return Val{K: KUnit}
	case "new":
		t := r.typeOf(e.Args[0])
		if _, ok := types.Unalias(t).Underlying().(*types.Struct); ok {
			return r.allocStruct(st, t, r.zero(st, t), e)
		}
		panic(toolLimit("new of non-struct"))
	case "make":
		t := types.Unalias(r.typeOf(e.Args[0]))
		switch u := t.Underlying().(type) {
		case *types.Slice:
			n := r.evalExpr(st, e.Args[1])
			r.oblige(st, "make", fmt.Sprintf("%d", r.callOrd[e]), sx(">=", n.T, "0"), e, "make length is non-negative", nil)
			capT := n.T
			if len(e.Args) == 3 {
				c := r.evalExpr(st, e.Args[2])
				r.oblige(st, "make", fmt.Sprintf("%dc", r.callOrd[e]), sx(">=", c.T, n.T), e, "make capacity is at least the length", nil)
				capT = c.T
			}
			es := w.sortOf(u.Elem())
			o := r.newObj("make", es, OwnFresh)
			zt := r.toTerm(st, r.zero(st, u.Elem()), u.Elem())
			if es == "Int" || es == "Real" || es == "Bool" {
				st.arrs[o] = fmt.Sprintf("((as const (Array Int %s)) %s)", es, zt)
			} else {
				// cvc5 accepts only values in constant arrays: use a fresh array whose entries are all the zero value
				a := r.fresh("zeroed", fmt.Sprintf("(Array Int %s)", es))
				qcount++
				k := fmt.Sprintf("k!q%d", qcount)
				st.assume(fmt.Sprintf("(forall ((%s Int)) (! (= (select %s %s) %s) :pattern ((select %s %s))))", k, a, k, zt, a, k))
				st.arrs[o] = a
			}
			return Val{K: KSlice, S: &SliceVal{Obj: o, Off: "0", Len: n.T, Cap: capT, Elem: u.Elem(), ESrt: es}, Go: t}
		case *types.Map:
			z := r.zero(st, t)
			s := z.Sort
			// non-nil empty map
			inner := z.T
			// replace isnil flag: rebuild
			has := sx("has"+s, inner)
			get := sx("get"+s, inner)
			return Val{K: KRef, T: sx("mk"+s, has, get, "false"), Sort: s, Go: t}
		}
		panic(toolLimit("make of " + t.String()))
	case "copy":
		dst := r.evalExpr(st, e.Args[0])
		src := r.evalExpr(st, e.Args[1])
		if dst.K != KSlice || src.K != KSlice {
			panic(toolLimit("copy of non-slices"))
		}
		n := r.fresh("ncopy", "Int")
		st.assume(eq(n, ite(sx("<", dst.S.Len, src.S.Len), dst.S.Len, src.S.Len)))
		site := fmt.Sprintf("copy%d", r.callOrd[e])
		if dst.S.Obj == nil && dst.S.From != nil && st.fresh(dst.S.From.ref) {
			// copy into a slice held in a field of an object allocated in this call: update the field's value
			r.obligeStatic(st, "frame", site, true, e, "copy targets ."+dst.S.From.fi.name+" of an object allocated in this call")
			old := dst.S.Arr
			na := r.fresh("copied", fmt.Sprintf("(Array Int %s)", dst.S.ESrt))
			qcount++
			k := fmt.Sprintf("k!q%d", qcount)
			inside := and(sx("<=", dst.S.Off, k), sx("<", k, add(dst.S.Off, n)))
			st.assume(fmt.Sprintf("(forall ((%s Int)) (! (= (select %s %s) (ite %s %s (select %s %s))) :pattern ((select %s %s))))",
				k, na, k, inside, r.srcElemTerm(st, src.S, sub(k, dst.S.Off)), old, k, na, k))
			nv := *dst.S
			nv.Arr, nv.From = na, nil
			dst.S.From.store(st, Val{K: KSlice, S: &nv, Go: dst.Go})
			return intV(n)
		}
		if dst.S.Obj == nil {
			r.obligeStatic(st, "frame", site, false, e, "copy into a slice that is not a locally owned object")
			return intV(n)
		}
		o := dst.S.Obj
		if st.frozen[o] {
			r.obligeStatic(st, "frame", site, false, e, "copy into "+o.name+" after it was published")
		} else if o.param && !r.modifiesAllows(o) {
			r.obligeStatic(st, "frame", site, false, e, "copy into parameter slice "+o.name+" not listed in modifies")
		} else {
			r.obligeStatic(st, "frame", site, true, e, "copy targets "+o.name)
		}
		old := st.arrs[o]
		na := r.fresh("copied", fmt.Sprintf("(Array Int %s)", o.elem))
		qcount++
		k := fmt.Sprintf("k!q%d", qcount)
		inside := and(sx("<=", dst.S.Off, k), sx("<", k, add(dst.S.Off, n)))
		st.assume(fmt.Sprintf("(forall ((%s Int)) (! (= (select %s %s) (ite %s %s (select %s %s))) :pattern ((select %s %s))))",
			k, na, k, inside, r.srcElemTerm(st, src.S, sub(k, dst.S.Off)), old, k, na, k))
		st.arrs[o] = na
		return intV(n)
	case "append":
		return r.evalAppend(st, e)
	}
	panic(toolLimit("builtin " + name))
}

// srcElemTerm: the element at relative position p of a slice, read through its zero-based view when that is still valid
// (so that facts stated over the view apply without arithmetic in trigger positions)
func (r *UnitRun) srcElemTerm(st *State, s *SliceVal, p string) string {
	if v, ok := r.lookupView(st, s); ok {
		return sx("select", v, p)
	}
	return sx("select", r.sliceArr(st, s), add(s.Off, p))
}

func (r *UnitRun) evalAppend(st *State, e *ast.CallExpr) Val {
	base := r.evalExpr(st, e.Args[0])
	if base.K != KSlice {
		panic(toolLimit("append to non-slice"))
	}
	s := base.S
	es := s.ESrt
	// elements to add
	var addLen string
	var setElems func(arr string, at string) []string // facts about new array
	if e.Ellipsis.IsValid() {
		src := r.evalExpr(st, e.Args[1])
		if src.K != KSlice {
			panic(toolLimit("append of non-slice..."))
		}
		addLen = src.S.Len
		srcArr := r.sliceArr(st, src.S)
		setElems = func(arr, at string) []string {
			qcount++
			k := fmt.Sprintf("k!q%d", qcount)
			hi := add(at, addLen)
			return []string{fmt.Sprintf("(forall ((%s Int)) (! (=> (and (<= %s %s) (< %s %s)) (= (select %s %s) (select %s (+ %s (- %s %s))))) :pattern ((select %s %s))))",
				k, at, k, k, hi, arr, k, srcArr, src.S.Off, k, at, arr, k)}
		}
	} else {
		var elems []string
		for _, a := range e.Args[1:] {
			v := r.convertTo(st, r.evalExpr(st, a), s.Elem)
			elems = append(elems, r.toTerm(st, v, s.Elem))
		}
		addLen = intLit(int64(len(elems)))
		setElems = func(arr, at string) []string {
			var fs []string
			for i, t := range elems {
				fs = append(fs, eq(sx("select", arr, add(at, intLit(int64(i)))), t))
			}
			return fs
		}
	}
	newLen := add(s.Len, addLen)
	// In-place append is possible when capacity suffices. We model append as producing a fresh backing store with the
	// same prefix; this is sound as long as the source object is not observed afterwards through an alias of larger
	// extent, which we enforce by requiring that the appended-to slice is a locally allocated object covering its
	// whole backing store (off == 0) or an immutable value.
	if s.Obj != nil && s.Obj.param {
		if id, ok := e.Args[0].(*ast.Ident); ok && r.capturedAppendOK(id) {
			r.obligeStatic(st, "frame", fmt.Sprintf("append%d", r.callOrd[e]), true, e, "append to the captured variable "+id.Name+" (in modifies; the enclosing function never aliases its backing store)")
		} else {
			r.obligeStatic(st, "frame", fmt.Sprintf("append%d", r.callOrd[e]), false, e, "append to a parameter slice may write its backing store")
		}
	}
	o := r.newObj("append", es, OwnFresh)
	na := r.fresh("appended", fmt.Sprintf("(Array Int %s)", es))
	oldArr := r.sliceArr(st, s)
	qcount++
	k := fmt.Sprintf("k!q%d", qcount)
	if s.Off == "0" {
		// both directions: a fact known about an old element carries over to the new array without a term of the new array
		// having to exist first (existential goals over the appended slice)
		st.assume(fmt.Sprintf("(forall ((%s Int)) (! (=> (and (<= 0 %s) (< %s %s)) (= (select %s %s) (select %s %s))) :pattern ((select %s %s)) :pattern ((select %s %s))))",
			k, k, k, s.Len, na, k, oldArr, k, na, k, oldArr, k))
	} else {
		st.assume(fmt.Sprintf("(forall ((%s Int)) (! (=> (and (<= 0 %s) (< %s %s)) (= (select %s %s) (select %s (+ %s %s)))) :pattern ((select %s %s))))",
			k, k, k, s.Len, na, k, oldArr, s.Off, k, na, k))
	}
	for _, f := range setElems(na, s.Len) {
		st.assume(f)
	}
	st.arrs[o] = na
	return Val{K: KSlice, S: &SliceVal{Obj: o, Off: "0", Len: newLen, Cap: "", Elem: s.Elem, ESrt: es}, Go: base.Go}
}

// ---------------------------------------------------------------------------------------------
// Contract application
// ---------------------------------------------------------------------------------------------

func (r *UnitRun) applyContract(st *State, callee *Unit, recv *Val, args []Val, e *ast.CallExpr) Val {
	return r.applyContractSelf(st, callee, recv, args, e, nil)
}

// paramStruct: the struct type behind the parameter or receiver called name (nil when there is none)
func (u *Unit) paramStruct(name string) types.Type {
	var t types.Type
	if u.Recv != nil && u.Recv.Name() == name {
		t = u.Recv.Type()
	}
	if u.Sig != nil {
		for i := 0; i < u.Sig.Params().Len(); i++ {
			if u.Sig.Params().At(i).Name() == name {
				t = u.Sig.Params().At(i).Type()
			}
		}
	}
	if t == nil {
		return nil
	}
	if p, ok := types.Unalias(t).Underlying().(*types.Pointer); ok {
		t = p.Elem()
	}
	if _, ok := types.Unalias(t).Underlying().(*types.Struct); ok {
		return t
	}
	return nil
}

func (u *Unit) modifiesGenIdx() bool {
	for _, m := range u.Modifies {
		if strings.HasPrefix(m, "genIdx(") {
			return true
		}
	}
	return false
}

func (u *Unit) paramNames() (recv string, params []specParam, results []specParam) {
	if u.Abstract {
		return "", u.Params, u.Results
	}
	if u.Recv != nil {
		recv = u.Recv.Name()
	}
	for i := 0; i < u.Sig.Params().Len(); i++ {
		p := u.Sig.Params().At(i)
		params = append(params, specParam{p.Name(), p.Type()})
	}
	for i := 0; i < u.Sig.Results().Len(); i++ {
		p := u.Sig.Results().At(i)
		n := p.Name()
		if n == "" || n == "_" {
			n = fmt.Sprintf("res%d", i)
		}
		results = append(results, specParam{n, p.Type()})
	}
	return
}

func (r *UnitRun) applyContractSelf(st *State, callee *Unit, recv *Val, args []Val, e *ast.CallExpr, self *Val) Val {
	if !callee.HasSpec {
		panic(toolLimit("callee " + callee.Name + " has no contract"))
	}
	r.callees[callee.Name] = true
	recvName, params, results := callee.paramNames()
	bound := map[string]Val{}
	if recv != nil && recvName != "" {
		bound[recvName] = *recv
	}
	if recv != nil && callee.Abstract {
		bound["self"] = *recv
	}
	if self != nil {
		bound["self"] = *self
	}
	if len(args) != len(params) {
		panic(toolLimit(fmt.Sprintf("call of %s: %d arguments for %d parameters", callee.Name, len(args), len(params))))
	}
	for i, p := range params {
		bound[p.Name] = args[i]
	}
	if len(callee.GhostParams) > 0 {
		short := callee.Name[strings.LastIndex(callee.Name, ".")+1:]
		given := r.unit.CallGhost[short]
		envG := &SpecEnv{run: r, st: st, old: r.entry, bound: map[string]Val{}}
		for _, gp := range callee.GhostParams {
			src, ok := given[gp.Name]
			if !ok {
				panic(toolLimit("call of " + callee.Name + ": no callghost value for ghost parameter " + gp.Name))
			}
			x, err := parser.ParseExpr(src)
			if err != nil {
				panic(toolLimit("callghost " + short + "." + gp.Name + ": " + err.Error()))
			}
			v := envG.eval(x)
			bound[gp.Name] = r.valOfSort(r.coerce(st, v, gp.Sort, "callghost"), gp.Sort)
		}
	}
	ord := r.callOrd[e]
	site := fmt.Sprintf("%s@%d", callee.Name, ord)
	pre := st.clone()
	env := &SpecEnv{run: r, st: st, old: pre, bound: bound}
	// preconditions
	for i, c := range callee.Requires {
		goal := r.specBool(env, c, "requires of "+callee.Name)
		r.oblige(st, "pre", fmt.Sprintf("%s.%d", site, i), goal, e, "precondition of "+callee.Name+": "+c.Text, c.Tags)
	}
	for i, c := range callee.Defined {
		goal := r.specBool(env, c, "defined-clause of "+callee.Name)
		st := st
		if len(r.unit.UsesDef) > 0 {
			st = st.clone()
			r.assumeNamed(st, r.unit.UsesDef)
		}
		r.oblige(st, "def", fmt.Sprintf("%s.%d", site, i), goal, e, "result of "+callee.Name+" is defined (finite): "+c.Text, c.Tags)
	}
	// tensor-typed arguments must be complete tensors unless the callee declares the parameter "unpublished"
	chk := func(name string, v Val) {
		if v.K != KRef || v.Sort != "T" {
			return
		}
		if _, half := st.ghost["alloc:"+v.T]; half && !callee.Unpublished[name] {
			r.obligeStatic(st, "published", fmt.Sprintf("%s.%s", site, name), false, e, "a tensor allocated in this call and not yet returned is passed as "+name+" to "+callee.Name+", which assumes a complete tensor")
		}
	}
	if recv != nil && recvName != "" {
		chk(recvName, *recv)
	}
	for i, p := range params {
		chk(p.Name, args[i])
	}
	// ownership transfer
	for i, p := range params {
		if callee.Takes[p.Name] && args[i].K == KSlice {
			s := args[i].S
			ok := true
			why := "immutable library value"
			if s.Obj != nil {
				ok = s.Obj.own == OwnFresh || s.Obj.own == OwnTaken || s.Obj.own == OwnLib
				why = s.Obj.name + " is " + s.Obj.own.String()
				if ok {
					st.frozen[s.Obj] = true
				}
			} else if s.Own == OwnCaller || s.Own == OwnBorrow {
				ok = false
				why = "value owned by " + s.Own.String()
			}
			r.obligeStatic(st, "own", fmt.Sprintf("%s.takes.%s", site, p.Name), ok, e, fmt.Sprintf("%s retains parameter %s: argument %s", callee.Name, p.Name, why))
		}
		if args[i].K == KFunc && callee.Takes[p.Name] {
			r.checkClosureEscape(st, args[i], e, site+".takes."+p.Name)
		}
	}
	// frame: havoc what the callee modifies
	for _, m := range callee.Modifies {
		if strings.HasPrefix(m, "genIdx(") {
			continue // after the results are bound (a generator constructor names its result)
		}
		r.havocModified(st, callee, m, bound, e)
	}
	// results
	var outs []Val
	for _, rp := range results {
		v := r.symbolic(st, rp.Type, "r_"+rp.Name, OwnFresh)
		if v.K == KSlice && v.S.Obj != nil {
			v.S.Obj.param = false
			if callee.Returns == "lib" {
				v.S.Obj.own = OwnLib
			}
		}
		if v.K == KRef && callee.Returns == "fresh" {
			r.allocN++
			r.declBirth(v.Sort)
			st.assume(eq(sx("birth_"+sanitize(v.Sort), v.T), intLit(int64(r.allocN))))
			st.markFresh(v.T)
		}
		if v.K == KRef && v.Sort == "T" {
			// a function only returns complete tensors (its own publish step)
			st.assume(implies(not(eq(v.T, "nilT")), sx("published", v.T)))
		}
		bound[rp.Name] = v
		bound[fmt.Sprintf("res%d", len(outs))] = v
		outs = append(outs, v)
	}
	if len(results) > 0 {
		bound["res"] = outs[0]
	}
	for _, v := range outs {
		if v.K == KFunc && callee.Returns == "fresh" && v.Fn.term != "" {
			st.markFresh(v.Fn.term)
		}
	}
	for _, m := range callee.Modifies {
		if strings.HasPrefix(m, "genIdx(") {
			r.havocModified(st, callee, m, bound, e)
		}
	}
	env2 := &SpecEnv{run: r, st: st, old: pre, bound: bound}
	for _, c := range callee.Ensures {
		if c.Opt != "" && !r.unit.Wants[c.Opt] {
			continue
		}
		st.assume(r.specBool(env2, c, "ensures of "+callee.Name))
	}
	for _, c := range callee.Trusted {
		st.assume(r.specBool(env2, c, "trusted clause of "+callee.Name))
		r.assumption("trusted postcondition of " + callee.Name + " (paper lemma, not proved from the body): " + c.Text)
	}
	switch len(outs) {
	case 0:
		return Val{K: KUnit}
	case 1:
		return outs[0]
	}
	return Val{K: KTuple, Tup: outs}
}

func (r *UnitRun) specBool(env *SpecEnv, c Clause, ctx string) (res string) {
	defer func() {
		if res != "" {
			if why := incompletePattern(res); why != "" {
				panic(toolLimit(fmt.Sprintf("%s (%s): %s", ctx, c.Where, why)))
			}
		}
	}()
	defer func() {
		if x := recover(); x != nil {
			if se, ok := x.(specError); ok {
				panic(toolLimit(fmt.Sprintf("%s (%s): %s in %q", ctx, c.Where, string(se), c.Text)))
			}
			panic(x)
		}
	}()
	return env.boolOf(c.Expr)
}

func (r *UnitRun) havocModified(st *State, callee *Unit, m string, bound map[string]Val, n ast.Node) {
	switch {
	case strings.HasPrefix(m, "genIdx("):
		// the abstract index of one generator (ghost): only that entry of the map changes. The caller's frame permits it
		// when the generator was created in this call, or when the caller's own modifies clause names the same generator.
		f := r.genIdxTarget(st, m, bound, "modifies of "+callee.Name)
		ok := st.fresh(f)
		if !ok {
			for _, own := range r.unit.Modifies {
				if strings.HasPrefix(own, "genIdx(") {
					func() {
						defer func() { recover() }()
						if r.genIdxTarget(r.entry, own, map[string]Val{"self": r.entry.ghost["self"]}, "modifies of "+r.unit.Name) == f {
							ok = true
						}
					}()
				}
			}
		}
		r.obligeStatic(st, "frame", fmt.Sprintf("call%d.genIdx", r.callOrd0(n)), ok, n, "callee "+callee.Name+" advances the generator "+m+": it is created in this call or named in this unit's modifies clause")
		cur := st.ghost["genIdx"]
		cur.T = sx("store", cur.T, f, r.fresh("havoc_genIdx", idxSort))
		st.ghost["genIdx"] = cur
	case strings.HasPrefix(m, "*"):
		v, ok := bound[m[1:]]
		if !ok || v.K != KPtr {
			panic(toolLimit("modifies " + m + ": no such pointer parameter in " + callee.Name))
		}
		cur := v.P.load(st)
		nv := r.symbolic(st, cur.Go, "havoc_"+sanitize(m), OwnFresh)
		if cur.Go == nil {
			panic(toolLimit("modifies " + m + ": pointee has no type"))
		}
		v.P.store(st, nv)
	case strings.Contains(m, ".") && func() bool { _, ok := bound[strings.SplitN(m, ".", 2)[0]]; return ok }():
		// field of one parameter object: only that object's field changes
		parts := strings.SplitN(m, ".", 2)
		obj := bound[parts[0]]
		if obj.K != KRef || obj.Go == nil {
			panic(toolLimit("modifies " + m + " of " + callee.Name + ": not an object parameter"))
		}
		sty := obj.Go
		if p, ok := types.Unalias(sty).Underlying().(*types.Pointer); ok {
			sty = p.Elem()
		}
		fi := r.prog.World.field(sty, parts[1])
		ok := st.fresh(obj.T) || r.modifiesField(fi.name) || r.modifiesParamField(obj.T, fi.name) || r.unit.Public
		r.obligeStatic(st, "frame", fmt.Sprintf("call%d.%s", r.callOrd0(n), sanitize(m)), ok, n, "callee "+callee.Name+" modifies "+m+": the object is allocated in this call or the field is in this unit's modifies clause")
		h := r.heapTerm(st, fi)
		nv := r.fresh("havoc_"+sanitize(fi.name), fi.valSort)
		st.heap[fi.name] = sx("store", h, obj.T, nv)
	case strings.Contains(m, "."):
		// heap field
		parts := strings.SplitN(m, ".", 2)
		fi, ok := r.prog.World.fields[m]
		if !ok {
			sty := r.structByName(parts[0])
			if sty == nil {
				panic(toolLimit("modifies " + m + ": unknown struct"))
			}
			fi = r.prog.World.field(sty, parts[1])
		}
		r.heapTerm(st, fi)
		name := r.fresh("H_"+sanitize(fi.name), fmt.Sprintf("(Array %s %s)", fi.refSort, fi.valSort))
		st.heap[fi.name] = name
		if !r.unit.Public && !r.modifiesField(m) && r.unit.Assumed == "" {
			// the caller's own frame must permit it
			r.obligeStatic(st, "frame", fmt.Sprintf("call%d.%s", r.callOrd0(n), m), false, n, "callee "+callee.Name+" modifies "+m+" which is not in this unit's modifies clause")
		}
	default:
		// slice parameter (element writes) or captured variable
		if v, ok := bound[m]; ok && v.K == KSlice {
			if v.S.Obj == nil {
				r.obligeStatic(st, "frame", fmt.Sprintf("call.%s.%s", callee.Name, m), false, n, "callee "+callee.Name+" writes elements of "+m+", but the argument is not a locally owned object")
				return
			}
			o := v.S.Obj
			if st.frozen[o] || (o.param && !r.modifiesAllows(o)) {
				r.obligeStatic(st, "frame", fmt.Sprintf("call.%s.%s", callee.Name, m), false, n, "callee "+callee.Name+" writes elements of "+o.name+" (published or not in modifies)")
			}
			st.arrs[o] = r.fresh("havoc_"+m, fmt.Sprintf("(Array Int %s)", o.elem))
			return
		}
		// captured variable of a closure called from its parent
		if obj, ok := st.names[m]; ok {
			cur := st.vars[obj]
			if cur.K == KSlice && callee.rebinds(m) {
				// the closure assigns the captured slice variable itself (e.g. order = append(order, x)): afterwards the
				// variable holds an unknown slice (the callee's postcondition says what is known about it)
				st.bind(obj, r.havocVal(st, cur, obj.Type(), m))
				return
			}
			if cur.K == KSlice && cur.S.Obj != nil {
				st.arrs[cur.S.Obj] = r.fresh("havoc_"+m, fmt.Sprintf("(Array Int %s)", cur.S.Obj.elem))
				return
			}
			nv := r.symbolic(st, obj.Type(), "havoc_"+m, OwnFresh)
			st.bind(obj, nv)
			return
		}
		if _, ok := st.ghost[m]; ok {
			cur := st.ghost[m]
			switch cur.K {
			case KInt:
				st.ghost[m] = intV(r.fresh("havoc_"+m, "Int"))
			case KReal:
				st.ghost[m] = realV(r.fresh("havoc_"+m, "Real"))
			case KRef:
				st.ghost[m] = Val{K: KRef, T: r.fresh("havoc_"+m, cur.Sort), Sort: cur.Sort, Go: cur.Go}
			}
			return
		}
		if m == "tick" {
			st.ghost["tick"] = intV(r.fresh("tick", "Int"))
			return
		}
		panic(toolLimit("modifies " + m + " of " + callee.Name + ": cannot resolve at call site"))
	}
}

// genIdxTarget evaluates the generator expression of a "genIdx(expr)" modifies entry.
func (r *UnitRun) genIdxTarget(st *State, m string, bound map[string]Val, ctx string) string {
	x, err := parser.ParseExpr(strings.TrimSuffix(strings.TrimPrefix(m, "genIdx("), ")"))
	if err != nil {
		panic(toolLimit(ctx + ": bad generator expression in " + m))
	}
	env := &SpecEnv{run: r, st: st, old: r.entry, bound: bound}
	v := env.eval(x)
	return r.coerce(st, v, "Fn", "genIdx")
}

func (r *UnitRun) callOrd0(n ast.Node) int {
	if c, ok := n.(*ast.CallExpr); ok {
		return r.callOrd[c]
	}
	return 0
}

func (r *UnitRun) structByName(name string) types.Type {
	for _, p := range r.prog.Pkgs {
		if obj := p.Types.Scope().Lookup(name); obj != nil {
			if _, ok := obj.Type().Underlying().(*types.Struct); ok {
				return obj.Type()
			}
		}
	}
	return nil
}

// checkClosureEscape: a closure that is stored in the heap / handed to a retaining callee must not capture
// slices owned by the caller of a public entry point.
func (r *UnitRun) checkClosureEscape(st *State, fv Val, n ast.Node, site string) {
	if fv.K != KFunc || fv.Fn.unit == nil {
		return
	}
	u := fv.Fn.unit
	for _, cv := range r.capturedVars(u) {
		val, ok := st.vars[cv]
		if !ok {
			continue
		}
		if val.K == KSlice {
			ok := true
			why := "immutable value"
			if val.S.Obj != nil {
				o := val.S.Obj
				ok = o.own == OwnFresh || o.own == OwnTaken || o.own == OwnLib
				why = o.name + " is " + o.own.String()
				if ok {
					st.frozen[o] = true
				}
			} else if val.S.Own == OwnCaller || val.S.Own == OwnBorrow {
				ok, why = false, "value owned by "+val.S.Own.String()
			}
			r.obligeStatic(st, "own", site+".capture."+cv.Name(), ok, n, fmt.Sprintf("escaping closure %s captures slice %s: %s", u.Name, cv.Name(), why))
		}
	}
}

// capturedVars: variables of enclosing functions referenced in u (including nested literals).
func (r *UnitRun) capturedVars(u *Unit) []*types.Var {
	seen := map[*types.Var]bool{}
	var out []*types.Var
	info := u.Pkg.TypesInfo
	ast.Inspect(u.Body, func(n ast.Node) bool {
		id, ok := n.(*ast.Ident)
		if !ok {
			return true
		}
		v, ok := info.Uses[id].(*types.Var)
		if !ok || v.IsField() || v.Pkg() == nil {
			return true
		}
		if v.Parent() == v.Pkg().Scope() {
			return true
		}
		// declared outside the literal?
		if v.Pos() >= u.Lit.Pos() && v.Pos() < u.Lit.End() {
			return true
		}
		if !seen[v] {
			seen[v] = true
			out = append(out, v)
		}
		return true
	})
	return out
}

// evalSlicesPkg models the two pure predicates of package slices on slices of scalars (Equal, Contains); everything
// else of that package is a tool limit.
func (r *UnitRun) evalSlicesPkg(st *State, name string, e *ast.CallExpr) Val {
	scalar := func(v Val) bool {
		if v.K != KSlice || v.S.Elem == nil {
			return false
		}
		b, ok := v.S.Elem.Underlying().(*types.Basic)
		return ok && b.Info()&(types.IsInteger|types.IsFloat|types.IsBoolean) != 0
	}
	switch name {
	case "Equal":
		a, b := r.evalExpr(st, e.Args[0]), r.evalExpr(st, e.Args[1])
		if !scalar(a) || !scalar(b) {
			break
		}
		qcount++
		k := fmt.Sprintf("k!q%d", qcount)
		same := fmt.Sprintf("(forall ((%s Int)) (=> (and (<= 0 %s) (< %s %s)) (= %s %s)))", k, k, k, a.S.Len,
			r.srcElemTerm(st, a.S, k), r.srcElemTerm(st, b.S, k))
		return Val{K: KBool, T: and(eq(a.S.Len, b.S.Len), same), Go: types.Typ[types.Bool]}
	case "Contains":
		a, x := r.evalExpr(st, e.Args[0]), r.evalExpr(st, e.Args[1])
		if !scalar(a) {
			break
		}
		qcount++
		k := fmt.Sprintf("k!q%d", qcount)
		return Val{K: KBool, T: fmt.Sprintf("(exists ((%s Int)) (and (<= 0 %s) (< %s %s) (= %s %s)))", k, k, k, a.S.Len,
			r.srcElemTerm(st, a.S, k), x.T), Go: types.Typ[types.Bool]}
	}
	if name == "Insert" && len(e.Args) == 3 && !e.Ellipsis.IsValid() {
		// slices.Insert(s, i, v): when s has spare capacity the elements from i on are shifted IN PLACE (seed C10-5), so the
		// call is an element write to s: allowed only for a slice object this call owns. The result is modelled as a fresh
		// slice (prefix, v, shifted suffix).
		a, iv, v := r.evalExpr(st, e.Args[0]), r.evalExpr(st, e.Args[1]), r.evalExpr(st, e.Args[2])
		if scalar(a) && iv.K == KInt {
			site := fmt.Sprintf("insert%d", r.callOrd[e])
			owned := a.S.Obj != nil && !a.S.Obj.param && !st.frozen[a.S.Obj]
			r.obligeStatic(st, "frame", site, owned, e, "slices.Insert may shift the elements of its first argument in place: the slice must be an object allocated in this call")
			r.oblige(st, "index", site, and(sx("<=", "0", iv.T), sx("<=", iv.T, a.S.Len)), e, "slices.Insert index in range", nil)
			es := a.S.ESrt
			o := r.newObj("inserted", es, OwnFresh)
			na := r.fresh("inserted", fmt.Sprintf("(Array Int %s)", es))
			qcount++
			k := fmt.Sprintf("k!q%d", qcount)
			st.assume(fmt.Sprintf("(forall ((%s Int)) (! (=> (and (<= 0 %s) (<= %s %s)) (= (select %s %s) (ite (< %s %s) %s (ite (= %s %s) %s %s)))) :pattern ((select %s %s))))",
				k, k, k, a.S.Len, na, k, k, iv.T, r.srcElemTerm(st, a.S, k), k, iv.T, r.toTerm(st, r.convertTo(st, v, a.S.Elem), a.S.Elem), r.srcElemTerm(st, a.S, sub(k, "1")), na, k))
			st.arrs[o] = na
			return Val{K: KSlice, S: &SliceVal{Obj: o, Off: "0", Len: add(a.S.Len, "1"), Cap: "", Elem: a.S.Elem, ESrt: es}, Go: a.Go}
		}
	}
	panic(toolLimit("call of external function slices." + name))
}

// rebinds: the body of the unit (a function literal) assigns the variable called name as a whole
func (u *Unit) rebinds(name string) bool {
	if u.Body == nil {
		return false
	}
	found := false
	ast.Inspect(u.Body, func(n ast.Node) bool {
		if as, ok := n.(*ast.AssignStmt); ok && as.Tok != token.DEFINE {
			for _, l := range as.Lhs {
				if id, ok := l.(*ast.Ident); ok && id.Name == name {
					found = true
				}
			}
		}
		return !found
	})
	return found
}

// capturedAppendOK: id names a slice variable captured by the closure under verification, the closure's modifies clause
// lists it, and in the outermost enclosing function the variable is only indexed, measured, ranged over, assigned,
// appended to itself (x = append(x, ...)) or returned - so no other slice shares its backing store and writing into its
// spare capacity is invisible to everybody else.
func (r *UnitRun) capturedAppendOK(id *ast.Ident) bool {
	u := r.unit
	if u.Lit == nil {
		return false
	}
	obj, _ := r.info.ObjectOf(id).(*types.Var)
	if obj == nil {
		return false
	}
	// declared outside the literal, inside a function: a captured local (or named result) of an enclosing function
	captured := (obj.Pos() < u.Lit.Pos() || obj.Pos() > u.Lit.End()) && obj.Parent() != nil && obj.Parent() != obj.Pkg().Scope()
	listed := false
	for _, m := range u.Modifies {
		if m == id.Name {
			listed = true
		}
	}
	if !captured || !listed {
		return false
	}
	root := u
	for root.Parent != nil {
		root = root.Parent
	}
	if root.Body == nil {
		return false
	}
	ok := true
	var stack []ast.Node
	ast.Inspect(root.Body, func(n ast.Node) bool {
		if n == nil {
			stack = stack[:len(stack)-1]
			return true
		}
		if x, isId := n.(*ast.Ident); isId && r.info.ObjectOf(x) == obj && len(stack) > 0 {
			switch p := stack[len(stack)-1].(type) {
			case *ast.IndexExpr:
				if p.X != x {
					ok = false
				}
			case *ast.RangeStmt:
				if p.X != x {
					ok = false
				}
			case *ast.ReturnStmt, *ast.ValueSpec:
			case *ast.AssignStmt:
				onLeft := false
				for _, l := range p.Lhs {
					if l == x {
						onLeft = true
					}
				}
				if !onLeft {
					ok = false
				}
			case *ast.CallExpr:
				fn, _ := p.Fun.(*ast.Ident)
				var b *types.Builtin
				if fn != nil {
					b, _ = r.info.ObjectOf(fn).(*types.Builtin)
				}
				switch {
				case b != nil && (b.Name() == "len" || b.Name() == "cap"):
				case b != nil && b.Name() == "append" && p.Args[0] == x && len(stack) > 1:
					as, isAs := stack[len(stack)-2].(*ast.AssignStmt)
					if !isAs || len(as.Lhs) != 1 || len(as.Rhs) != 1 || as.Rhs[0] != p {
						ok = false
					} else if l, isL := as.Lhs[0].(*ast.Ident); !isL || r.info.ObjectOf(l) != obj {
						ok = false
					}
				default:
					ok = false
				}
			default:
				ok = false
			}
		}
		stack = append(stack, n)
		return true
	})
	return ok
}

package main

import (
	"strings"
	"sort"
	"fmt"
	"go/ast"
	"go/token"
	"go/types"
)

// ---------------------------------------------------------------------------------------------
// Expression evaluation (never forks)
// ---------------------------------------------------------------------------------------------

func (r *UnitRun) typeOf(e ast.Expr) types.Type {
	if tv, ok := r.info.Types[e]; ok {
		return tv.Type
	}
	if id, ok := e.(*ast.Ident); ok {
		if o := r.info.ObjectOf(id); o != nil {
			return o.Type()
		}
	}
	return nil
}

func (r *UnitRun) evalExpr(st *State, e ast.Expr) Val {
	if tv, ok := r.info.Types[e]; ok && tv.Value != nil {
		return r.constVal(tv.Value, tv.Type)
	}
	switch e := e.(type) {
	case *ast.ParenExpr:
		return r.evalExpr(st, e.X)
	case *ast.Ident:
		switch e.Name {
		case "nil":
			return Val{K: KUnit, T: "nil"}
		case "true":
			return boolV("true")
		case "false":
			return boolV("false")
		}
		obj := r.info.ObjectOf(e)
		if v, ok := st.vars[obj]; ok {
			return v
		}
		if fn, ok := obj.(*types.Func); ok {
			if u, ok := r.prog.ByObj[fn]; ok {
				return Val{K: KFunc, Fn: &FuncVal{unit: u, typ: fn.Type()}, Go: fn.Type()}
			}
		}
		panic(toolLimit("unbound identifier " + e.Name))
	case *ast.FuncLit:
		u := r.prog.ByLit[e]
		fv := Val{K: KFunc, Fn: &FuncVal{unit: u, typ: r.typeOf(e), st: st}, Go: r.typeOf(e)}
		if u != nil && u.Implements != "" {
			// a closure under a function-type protocol is a new function value now: its ghost protocol state starts here
			// (not whenever the value is first used)
			r.toTerm(st, fv, nil)
		}
		return fv
	case *ast.UnaryExpr:
		switch e.Op {
		case token.NOT:
			return boolV(not(r.evalExpr(st, e.X).T))
		case token.SUB:
			v := r.evalExpr(st, e.X)
			return Val{K: v.K, T: sx("-", v.T), Go: v.Go}
		case token.ADD:
			return r.evalExpr(st, e.X)
		case token.AND:
			if cl, ok := e.X.(*ast.CompositeLit); ok {
				return r.evalCompositeLit(st, cl, true)
			}
			return Val{K: KPtr, P: r.evalLoc(st, e.X), Go: r.typeOf(e)}
		}
	case *ast.BinaryExpr:
		return r.evalBinary(st, e)
	case *ast.CallExpr:
		return r.evalCall(st, e)
	case *ast.IndexExpr:
		base := r.evalExpr(st, e.X)
		switch base.K {
		case KSlice:
			idx := r.evalExpr(st, e.Index)
			r.oblige(st, "index", fmt.Sprintf("%d", r.siteOrd[e]), and(sx("<=", "0", idx.T), sx("<", idx.T, base.S.Len)), e,
				"index in range: "+types.ExprString(e), nil)
			return r.sliceElem(st, base.S, idx.T)
		case KRef:
			if _, ok := types.Unalias(r.typeOf(e.X)).Underlying().(*types.Map); ok {
				k := r.evalExpr(st, e.Index)
				mt := types.Unalias(r.typeOf(e.X)).Underlying().(*types.Map)
				return r.mapGet(st, base, k, mt).Tup[0]
			}
		}
		panic(toolLimit("index of " + base.String()))
	case *ast.SliceExpr:
		base := r.evalExpr(st, e.X)
		if base.K != KSlice {
			panic(toolLimit("slice expression on non-slice"))
		}
		s := *base.S
		lo, hi := "0", s.Len
		if e.Low != nil {
			lo = r.evalExpr(st, e.Low).T
		}
		if e.High != nil {
			hi = r.evalExpr(st, e.High).T
		}
		if e.Max != nil {
			panic(toolLimit("3-index slice"))
		}
		bound := s.Len
		if s.Cap != "" && e.High != nil {
			bound = s.Cap
		}
		r.oblige(st, "slice", fmt.Sprintf("%d", r.siteOrd[e]), and(sx("<=", "0", lo), sx("<=", lo, hi), sx("<=", hi, bound)), e,
			"slice bounds: "+types.ExprString(e), nil)
		if s.Cap != "" {
			s.Cap = sub(s.Cap, lo)
		}
		parentView, hasParent := r.lookupView(st, &s)
		s.Off = add(s.Off, lo)
		s.Len = sub(hi, lo)
		if _, lit := isIntLit(s.Off); !lit {
			_, existed := r.lookupView(st, &s)
			sv := r.addView(st, &s, "sub")
			if hasParent && !existed && sv != "" {
				// also relative to the parent's view, so that facts stated over the parent window carry over by plain matching
				qcount++
				k := fmt.Sprintf("k!q%d", qcount)
				st.assume(fmt.Sprintf("(forall ((%s Int)) (! (= (select %s %s) (select %s (+ %s %s))) :pattern ((select %s %s))))", k, sv, k, parentView, lo, k, sv, k))
			}
		}
		return Val{K: KSlice, S: &s, Go: base.Go}
	case *ast.SelectorExpr:
		if sel, ok := r.info.Selections[e]; ok {
			if sel.Kind() == types.FieldVal {
				base := r.evalExpr(st, e.X)
				return r.selectField(st, base, e.Sel.Name, e)
			}
			panic(toolLimit("method value " + types.ExprString(e)))
		}
		// qualified identifier
		obj := r.info.ObjectOf(e.Sel)
		if fn, ok := obj.(*types.Func); ok {
			if u, ok := r.prog.ByObj[fn]; ok {
				return Val{K: KFunc, Fn: &FuncVal{unit: u, typ: fn.Type()}, Go: fn.Type()}
			}
		}
		panic(toolLimit("qualified identifier " + types.ExprString(e)))
	case *ast.StarExpr:
		p := r.evalExpr(st, e.X)
		return r.deref(st, p, e)
	case *ast.CompositeLit:
		return r.evalCompositeLit(st, e, false)
	case *ast.TypeAssertExpr:
		v, ok := r.evalTypeAssert(st, e, false)
		_ = ok
		return v
	}
	panic(toolLimit(fmt.Sprintf("unsupported expression %T %s", e, types.ExprString(e))))
}

func (r *UnitRun) deref(st *State, p Val, n ast.Node) Val {
	switch p.K {
	case KPtr:
		if pp, ok := p.P.(*paramPtrLoc); ok {
			r.oblige(st, "nil", fmt.Sprintf("deref%d", r.siteOrd[n]), not(pp.isNil), n, "nil pointer dereference", nil)
		}
		return p.P.load(st)
	case KRef:
		// *ptrToStruct: struct value copy
		if sty, ok := r.structTypeOf(p); ok {
			r.oblige(st, "nil", fmt.Sprintf("deref%d", r.siteOrd[n]), not(eq(p.T, r.prog.World.nilOf(p.Sort))), n, "nil pointer dereference", nil)
			u := sty.Underlying().(*types.Struct)
			f := map[string]Val{}
			for i := 0; i < u.NumFields(); i++ {
				fi := r.prog.World.field(sty, u.Field(i).Name())
				f[u.Field(i).Name()] = r.fromTerm(sx("select", r.heapTerm(st, fi), p.T), fi.goType)
			}
			return Val{K: KStruct, F: f, Go: sty}
		}
	}
	panic(toolLimit("dereference of " + p.String()))
}

func (r *UnitRun) evalBinary(st *State, e *ast.BinaryExpr) Val {
	switch e.Op {
	case token.LAND, token.LOR:
		x := r.evalExpr(st, e.X)
		n := len(st.facts)
		cond := x.T
		if e.Op == token.LOR {
			cond = not(x.T)
		}
		st.assume(cond)
		n1 := len(st.facts)
		y := r.evalExpr(st, e.Y)
		extra := append([]string(nil), st.facts[n1:]...)
		st.facts = st.facts[:n]
		for _, f := range extra {
			st.assume(implies(cond, f))
		}
		if e.Op == token.LAND {
			return boolV(and(x.T, y.T))
		}
		return boolV(or(x.T, y.T))
	}
	x := r.evalExpr(st, e.X)
	y := r.evalExpr(st, e.Y)
	w := r.prog.World
	switch e.Op {
	case token.EQL:
		return boolV(r.goEq(st, x, y, e))
	case token.NEQ:
		return boolV(not(r.goEq(st, x, y, e)))
	case token.LSS, token.LEQ, token.GTR, token.GEQ:
		op := map[token.Token]string{token.LSS: "<", token.LEQ: "<=", token.GTR: ">", token.GEQ: ">="}[e.Op]
		if x.K == KReal || y.K == KReal {
			return boolV(sx(op, toReal(x), toReal(y)))
		}
		return boolV(sx(op, x.T, y.T))
	case token.ADD, token.SUB, token.MUL, token.QUO, token.REM:
		return r.arith(st, e.Op, x, y, e)
	}
	_ = w
	panic(toolLimit("binary operator " + e.Op.String()))
}

func (r *UnitRun) arith(st *State, op token.Token, x, y Val, n ast.Node) Val {
	if x.K == KReal || y.K == KReal {
		o := map[token.Token]string{token.ADD: "+", token.SUB: "-", token.MUL: "*", token.QUO: "/"}[op]
		if o == "" {
			panic(toolLimit("float operator " + op.String()))
		}
		return Val{K: KReal, T: sx(o, toReal(x), toReal(y)), Go: x.Go}
	}
	if x.K != KInt || y.K != KInt {
		panic(toolLimit("arithmetic on " + x.String() + ", " + y.String()))
	}
	switch op {
	case token.ADD:
		return Val{K: KInt, T: add(x.T, y.T), Go: x.Go}
	case token.SUB:
		return Val{K: KInt, T: sub(x.T, y.T), Go: x.Go}
	case token.MUL:
		return Val{K: KInt, T: sx("*", x.T, y.T), Go: x.Go}
	case token.QUO, token.REM:
		r.oblige(st, "div", fmt.Sprintf("%d", r.siteOrd[n]), not(eq(y.T, "0")), n, "integer divisor is not zero", nil)
		r.assumption("integer / and % are modelled as SMT div / mod (agrees with Go for non-negative operands)")
		if op == token.QUO {
			return Val{K: KInt, T: sx("div", x.T, y.T), Go: x.Go}
		}
		return Val{K: KInt, T: sx("mod", x.T, y.T), Go: x.Go}
	}
	panic(toolLimit("int operator " + op.String()))
}

func (r *UnitRun) goEq(st *State, x, y Val, n ast.Node) string {
	return specEq(r.prog.World, x, y)
}

// evalLoc returns the location denoted by an addressable expression.
func (r *UnitRun) evalLoc(st *State, e ast.Expr) Loc {
	switch e := e.(type) {
	case *ast.ParenExpr:
		return r.evalLoc(st, e.X)
	case *ast.Ident:
		obj := r.info.ObjectOf(e)
		return &varLoc{obj: obj}
	case *ast.IndexExpr:
		base := r.evalExpr(st, e.X)
		if base.K == KSlice {
			idx := r.evalExpr(st, e.Index)
			r.oblige(st, "index", fmt.Sprintf("%d", r.siteOrd[e]), and(sx("<=", "0", idx.T), sx("<", idx.T, base.S.Len)), e,
				"index in range: "+types.ExprString(e), nil)
			return &elemLoc{r: r, s: base.S, idx: idx.T, n: e}
		}
		if base.K == KRef {
			if mt, ok := types.Unalias(r.typeOf(e.X)).Underlying().(*types.Map); ok {
				k := r.evalExpr(st, e.Index)
				return &mapLoc{r: r, m: r.evalLoc(st, e.X), key: k, mt: mt}
			}
		}
		panic(toolLimit("location: index of " + base.String()))
	case *ast.SelectorExpr:
		if sel, ok := r.info.Selections[e]; ok && sel.Kind() == types.FieldVal {
			bt := r.typeOf(e.X)
			if _, isPtr := types.Unalias(bt).Underlying().(*types.Pointer); isPtr {
				base := r.evalExpr(st, e.X)
				if base.K == KRef {
					sty, ok := r.structTypeOf(base)
					if !ok && base.Sort == "T" {
						sty, ok = r.cpuTensorStruct(), true
					}
					if ok {
						fi := r.prog.World.field(sty, e.Sel.Name)
						r.oblige(st, "nil", fmt.Sprintf("sel%d", r.siteOrd[e]), not(eq(base.T, r.prog.World.nilOf(base.Sort))), e, "nil dereference writing ."+e.Sel.Name, nil)
						return &fieldLoc{r: r, ref: base.T, fi: fi, n: e}
					}
				}
				panic(toolLimit("location: field of " + base.String()))
			}
			return &subFieldLoc{base: r.evalLoc(st, e.X), name: e.Sel.Name}
		}
	case *ast.StarExpr:
		p := r.evalExpr(st, e.X)
		if p.K == KPtr {
			if pp, ok := p.P.(*paramPtrLoc); ok {
				r.oblige(st, "nil", fmt.Sprintf("deref%d", r.siteOrd[e]), not(pp.isNil), e, "nil pointer dereference", nil)
			}
			return p.P
		}
		if p.K == KRef {
			if sty, ok := r.structTypeOf(p); ok {
				return &structRefLoc{r: r, ref: p, sty: sty, n: e}
			}
		}
	}
	panic(toolLimit(fmt.Sprintf("unsupported location %T %s", e, types.ExprString(e))))
}

// structRefLoc: *p where p points to a heap struct (whole-struct load / store)
type structRefLoc struct {
	r   *UnitRun
	ref Val
	sty types.Type
	n   ast.Node
}

func (l *structRefLoc) load(st *State) Val { return l.r.deref(st, l.ref, l.n) }
func (l *structRefLoc) store(st *State, v Val) {
	u := l.sty.Underlying().(*types.Struct)
	for i := 0; i < u.NumFields(); i++ {
		fi := l.r.prog.World.field(l.sty, u.Field(i).Name())
		(&fieldLoc{r: l.r, ref: l.ref.T, fi: fi, n: l.n}).store(st, v.F[u.Field(i).Name()])
	}
}
func (l *structRefLoc) describe() string { return "*" + l.ref.T }

// mapLoc: m[k] as an assignable location
type mapLoc struct {
	r   *UnitRun
	m   Loc
	key Val
	mt  *types.Map
}

func (l *mapLoc) load(st *State) Val {
	return l.r.mapGet(st, l.m.load(st), l.key, l.mt).Tup[0]
}
func (l *mapLoc) store(st *State, v Val) {
	r := l.r
	m := l.m.load(st)
	s := m.Sort
	r.oblige(st, "nil", "mapwrite", not(sx("isnil"+s, m.T)), nil, "assignment to entry in nil map", nil)
	nm := sx("mk"+s, sx("store", sx("has"+s, m.T), l.key.T, "true"), sx("store", sx("get"+s, m.T), l.key.T, r.toTerm(st, v, l.mt.Elem())), "false")
	l.m.store(st, Val{K: KRef, T: nm, Sort: s, Go: m.Go})
	r.assumption("maps are modelled as values: a write through a copied map reference is not propagated to other holders of the map")
}
func (l *mapLoc) describe() string { return "map entry" }

func (r *UnitRun) mapGet(st *State, m Val, k Val, mt *types.Map) Val {
	s := m.Sort
	has := sx("select", sx("has"+s, m.T), k.T)
	has = and(not(sx("isnil"+s, m.T)), has)
	z := r.zero(st, mt.Elem())
	got := sx("select", sx("get"+s, m.T), k.T)
	v := r.fromTerm(ite(has, got, r.toTerm(st, z, mt.Elem())), mt.Elem())
	return Val{K: KTuple, Tup: []Val{v, boolV(has)}}
}

func (r *UnitRun) evalCompositeLit(st *State, e *ast.CompositeLit, addr bool) Val {
	t := r.typeOf(e)
	tu := types.Unalias(t)
	w := r.prog.World
	if p, ok := tu.Underlying().(*types.Pointer); ok {
		// elided &T{...} inside a composite literal
		if _, ok := p.Elem().Underlying().(*types.Struct); ok {
			addr = true
			t = p.Elem()
			tu = types.Unalias(t)
		}
	}
	switch u := tu.Underlying().(type) {
	case *types.Slice:
		es := w.sortOf(u.Elem())
		o := r.newObj("lit", es, OwnFresh)
		arr := r.fresh("lit_arr", fmt.Sprintf("(Array Int %s)", es))
		for i, el := range e.Elts {
			var v Val
			if cl, ok := el.(*ast.CompositeLit); ok {
				_, isPtr := types.Unalias(u.Elem()).Underlying().(*types.Pointer)
				v = r.evalCompositeLit(st, cl, isPtr)
			} else {
				v = r.evalExpr(st, el)
			}
			arr = sx("store", arr, intLit(int64(i)), r.toTerm(st, v, u.Elem()))
		}
		st.arrs[o] = arr
		n := intLit(int64(len(e.Elts)))
		return Val{K: KSlice, S: &SliceVal{Obj: o, Off: "0", Len: n, Cap: n, Elem: u.Elem(), ESrt: es}, Go: t}
	case *types.Struct:
		f := map[string]Val{}
		for i := 0; i < u.NumFields(); i++ {
			f[u.Field(i).Name()] = r.zero(st, u.Field(i).Type())
		}
		for i, el := range e.Elts {
			if kv, ok := el.(*ast.KeyValueExpr); ok {
				name := kv.Key.(*ast.Ident).Name
				f[name] = r.convertTo(st, r.evalExpr(st, kv.Value), fieldType(u, name))
			} else {
				f[u.Field(i).Name()] = r.convertTo(st, r.evalExpr(st, el), u.Field(i).Type())
			}
		}
		sv := Val{K: KStruct, F: f, Go: t}
		if !addr {
			return sv
		}
		return r.allocStruct(st, t, sv, e)
	}
	panic(toolLimit("composite literal of type " + t.String()))
}

func fieldType(u *types.Struct, name string) types.Type {
	for i := 0; i < u.NumFields(); i++ {
		if u.Field(i).Name() == name {
			return u.Field(i).Type()
		}
	}
	return nil
}

// convertTo adapts a value to a destination static type (nil to typed nil, int constant to float ...).
func (r *UnitRun) convertTo(st *State, v Val, t types.Type) Val {
	if t == nil {
		return v
	}
	if v.K == KUnit && v.T == "nil" {
		return r.zero(st, t)
	}
	tu := types.Unalias(t)
	if b, ok := tu.Underlying().(*types.Basic); ok && b.Info()&types.IsFloat != 0 && v.K == KInt {
		return Val{K: KReal, T: toReal(v), Go: t}
	}
	if iface, ok := tu.Underlying().(*types.Interface); ok && iface.NumMethods() == 0 && v.K != KRef {
		// boxing a concrete value into any
		return r.box(st, v, t)
	}
	if iface, ok := tu.Underlying().(*types.Interface); ok && iface.NumMethods() == 0 && v.K == KRef && v.Sort != "Data" {
		return r.box(st, v, t)
	}
	if _, ok := tu.Underlying().(*types.Interface); ok && v.K == KRef && v.Sort != "T" && v.Sort != r.prog.World.sortOf(tu) && r.prog.World.sortOf(tu) != "Data" {
		// concrete pointer converted to a non-empty interface (e.g. *XavierUniform as layers.Initializer)
		return r.box(st, v, t)
	}
	if v.Go == nil {
		v.Go = t
	}
	return v
}

func (r *UnitRun) allocStruct(st *State, t types.Type, sv Val, n ast.Node) Val {
	w := r.prog.World
	sty := t
	if p, ok := types.Unalias(t).Underlying().(*types.Pointer); ok {
		sty = p.Elem()
	}
	sort := w.sortOf(types.NewPointer(sty))
	ref := r.fresh("new_"+typeName(sty), sort)
	r.allocN++
	r.declBirth(sort)
	st.assume(not(eq(ref, w.nilOf(sort))))
	st.assume(eq(sx("birth_"+sanitize(sort), ref), intLit(int64(r.allocN))))
	st.markFresh(ref)
	st.ghost["alloc:"+ref] = Val{K: KRef, T: ref, Sort: sort, Go: types.NewPointer(sty)}
	// a new object is not yet stored anywhere: it differs from every element of every live slice of its sort
	for o, arr := range st.arrs {
		if o.elem == sort {
			qcount++
			k := fmt.Sprintf("k!q%d", qcount)
			st.assume(fmt.Sprintf("(forall ((%s Int)) (! (not (= (select %s %s) %s)) :pattern ((select %s %s))))", k, arr, k, ref, arr, k))
		}
	}
	u := sty.Underlying().(*types.Struct)
	for i := 0; i < u.NumFields(); i++ {
		fi := w.field(sty, u.Field(i).Name())
		h := r.heapTerm(st, fi)
		fv := sv.F[u.Field(i).Name()]
		if fv.K == KSlice && fv.S.Obj != nil && fv.S.Obj.param {
			o := fv.S.Obj
			ok := o.own == OwnTaken || o.own == OwnLib || o.own == OwnFresh
			r.obligeStatic(st, "own", fmt.Sprintf("lit%d.%s", r.siteOrd[n], u.Field(i).Name()), ok, n, fmt.Sprintf("slice %s (%s) stored into .%s", o.name, o.own, fi.name))
		}
		if fv.K == KFunc {
			r.checkClosureEscape(st, fv, n, fmt.Sprintf("lit%d.%s", r.siteOrd[n], u.Field(i).Name()))
		}
		st.heap[fi.name] = sx("store", h, ref, r.toTerm(st, fv, fi.goType))
	}
	return Val{K: KRef, T: ref, Sort: sort, Go: types.NewPointer(sty)}
}

func (r *UnitRun) declBirth(sort string) {
	name := "birth_" + sanitize(sort)
	r.prog.World.decls.declare(name, fmt.Sprintf("(declare-fun %s (%s) Int)", name, sort))
}

// box converts a concrete value into an interface value (any / small interfaces).
func (r *UnitRun) box(st *State, v Val, t types.Type) Val {
	w := r.prog.World
	dst := w.sortOf(t)
	var src, term string
	switch v.K {
	case KReal:
		src, term = "Real", v.T
	case KInt:
		src, term = "Int", v.T
	case KRef:
		src, term = v.Sort, v.T
	case KSlice:
		src = w.ensureSl(v.S.ESrt)
		term = r.toTerm(st, v, nil)
	default:
		panic(toolLimit("box: unsupported value " + v.String()))
	}
	if dst == "Data" {
		r.needData()
	}
	fn := r.boxFn(src, dst)
	return Val{K: KRef, T: sx(fn, term), Sort: dst, Go: t}
}

func (r *UnitRun) boxFn(src, dst string) string {
	d := r.prog.World.decls
	fn := "box_" + sanitize(src) + "_" + sanitize(dst)
	// world level: declarations only (a query's text must not depend on which units were processed before it)
	d.declare(fn, fmt.Sprintf("(declare-fun %s (%s) %s)\n(declare-fun un%s (%s) %s)\n(declare-fun is%s (%s) Bool)", fn, src, dst, fn, dst, src, fn, dst))
	// unit level, on demand: the axioms
	ax := fmt.Sprintf("(assert (forall ((x %s)) (! (and (is%s (%s x)) (= (un%s (%s x)) x)) :pattern ((%s x)))))", src, fn, fn, fn, fn, fn)
	// a value of the boxed kind is the box of its content (interfaces holding this dynamic type and nothing else)
	ax += fmt.Sprintf("\n(assert (forall ((d %s)) (! (=> (is%s d) (= (%s (un%s d)) d)) :pattern ((un%s d)))))", dst, fn, fn, fn, fn)
	if dst != "Data" {
		ax += fmt.Sprintf("\n(assert (forall ((x %s)) (! (not (= (%s x) nil_%s)) :pattern ((%s x)))))", src, fn, dst, fn)
	}
	r.needNamed("boxax:"+fn, ax)
	// dynamic types are exclusive: an interface value holding a nested float64 slice holds nothing else (stated only for
	// pairs that involve such a typed slice, the kinds a type switch over TensorOf's input distinguishes)
	typed := func(s string) bool { return strings.HasSuffix(s, "Sl_Real") }
	var kinds []string
	for k := range r.needs {
		if strings.HasPrefix(k, "boxkind:"+dst+":") {
			kinds = append(kinds, strings.TrimPrefix(k, "boxkind:"+dst+":"))
		}
	}
	sort.Strings(kinds)
	for _, other := range kinds {
		ofn := "box_" + sanitize(other) + "_" + sanitize(dst)
		if other == src || !(typed(src) || typed(other)) {
			continue
		}
		a, b := fn, ofn
		if b < a {
			a, b = b, a
		}
		r.needNamed("boxdisj:"+a+":"+b, fmt.Sprintf("(assert (forall ((d %s)) (! (not (and (is%s d) (is%s d))) :pattern ((is%s d)) :pattern ((is%s d)))))", dst, a, b, a, b))
	}
	r.needs["boxkind:"+dst+":"+src] = true
	return fn
}

func (r *UnitRun) evalTypeAssert(st *State, e *ast.TypeAssertExpr, commaOk bool) (Val, string) {
	x := r.evalExpr(st, e.X)
	dstT := r.typeOf(e.Type)
	w := r.prog.World
	site := fmt.Sprintf("%d", r.siteOrd[e])
	if x.K == KRef && x.Sort == "T" && isTensorType(dstT) {
		r.needIsCPU()
		ok := and(not(eq(x.T, "nilT")), sx("isCPU", x.T))
		if !commaOk {
			r.oblige(st, "assert", site, ok, e, "type assertion to *CPUTensor succeeds", nil)
		}
		return Val{K: KRef, T: x.T, Sort: "T", Go: dstT}, ok
	}
	if x.K == KRef && (x.Sort == "Data" || isInterfaceSort(x.Sort)) {
		var src string
		tu := types.Unalias(dstT)
		switch u := tu.Underlying().(type) {
		case *types.Basic:
			if u.Info()&types.IsFloat != 0 {
				src = "Real"
			} else if u.Info()&types.IsInteger != 0 {
				src = "Int"
			}
		case *types.Pointer:
			src = w.sortOf(tu)
		case *types.Slice:
			src = w.sortOf(tu)
		}
		if src == "" {
			panic(toolLimit("type assertion to " + dstT.String()))
		}
		fn := r.boxFn(src, x.Sort)
		ok := sx("is"+fn, x.T)
		if !commaOk {
			r.oblige(st, "assert", site, ok, e, "type assertion to "+dstT.String()+" succeeds", nil)
		}
		return r.lenFact(st, r.fromTerm(sx("un"+fn, x.T), dstT)), ok // a slice value has a non-negative length
	}
	panic(toolLimit("type assertion on " + x.String()))
}

func isInterfaceSort(s string) bool { return len(s) > 2 && s[:2] == "I_" }

func (r *UnitRun) needIsCPU() {
	r.prog.World.decls.declare("isCPU", "(declare-fun isCPU (T) Bool)")
	r.needNamed("isCPUax", "(assert (forall ((t T)) (! (=> (not (= t nilT)) (isCPU t)) :pattern ((isCPU t)))))")
	r.assumption("every non-nil tensor.Tensor is a *CPUTensor (foreign implementations of the interface are outside every contract)")
}

package rac

import (
	"fmt"
	"math"
	"math/rand"
	"testing"
	"time"

	"github.com/sahandsafizadeh/qeep/tensor"
)

// numGrad: central finite differences of f (a scalar function of the operands) with respect to operand k.
func numGrad(f func(xs []Ref) float64, xs []Ref, k int) Ref {
	g := newRef(xs[k].Shape)
	const h = 1e-6
	for i := range xs[k].Data {
		orig := xs[k].Data[i]
		xs[k].Data[i] = orig + h
		fp := f(xs)
		xs[k].Data[i] = orig - h
		fm := f(xs)
		xs[k].Data[i] = orig
		g.Data[i] = (fp - fm) / (2 * h)
	}
	return g
}

func sumMul(y tensor.Tensor, w Ref) float64 {
	a := fromT(y)
	s := 0.
	for i := range a.Data {
		s += a.Data[i] * w.Data[i]
	}
	return s
}

type opCase struct {
	name   string
	arity  int
	shapes func(rng *rand.Rand, base []int) ([][]int, bool) // operand shapes from a base shape
	apply  func(xs []tensor.Tensor) (tensor.Tensor, error)
	lo, hi float64
}

func same1(rng *rand.Rand, b []int) ([][]int, bool) { return [][]int{b}, true }
func same2(rng *rand.Rand, b []int) ([][]int, bool) { return [][]int{b, b}, true }

func ruleCases(rng *rand.Rand) []opCase {
	un := func(name string, f func(tensor.Tensor) tensor.Tensor, lo, hi float64) opCase {
		return opCase{name, 1, same1, func(xs []tensor.Tensor) (tensor.Tensor, error) { return f(xs[0]), nil }, lo, hi}
	}
	along := func(name string, f func(tensor.Tensor, int) (tensor.Tensor, error)) []opCase {
		var out []opCase
		for d := 0; d < 3; d++ {
			d := d
			out = append(out, opCase{fmt.Sprintf("%s/dim%d", name, d), 1, func(rng *rand.Rand, b []int) ([][]int, bool) { return [][]int{b}, d < len(b) },
				func(xs []tensor.Tensor) (tensor.Tensor, error) { return f(xs[0], d) }, 0.5, 3})
		}
		return out
	}
	cs := []opCase{
		un("Scale", func(x tensor.Tensor) tensor.Tensor { return x.Scale(-1.7) }, -2, 2),
		un("Pow/2.5", func(x tensor.Tensor) tensor.Tensor { return x.Pow(2.5) }, 0.5, 2),
		un("Pow/-1", func(x tensor.Tensor) tensor.Tensor { return x.Pow(-1) }, 0.5, 2),
		un("Exp", func(x tensor.Tensor) tensor.Tensor { return x.Exp() }, -2, 2),
		un("Log", func(x tensor.Tensor) tensor.Tensor { return x.Log() }, 0.5, 3),
		un("Sin", func(x tensor.Tensor) tensor.Tensor { return x.Sin() }, -2, 2),
		un("Cos", func(x tensor.Tensor) tensor.Tensor { return x.Cos() }, -2, 2),
		un("Tan", func(x tensor.Tensor) tensor.Tensor { return x.Tan() }, -1, 1),
		un("Sinh", func(x tensor.Tensor) tensor.Tensor { return x.Sinh() }, -2, 2),
		un("Cosh", func(x tensor.Tensor) tensor.Tensor { return x.Cosh() }, -2, 2),
		un("Tanh", func(x tensor.Tensor) tensor.Tensor { return x.Tanh() }, -2, 2),
		{"Add", 2, same2, func(xs []tensor.Tensor) (tensor.Tensor, error) { return xs[0].Add(xs[1]) }, -2, 2},
		{"Sub", 2, same2, func(xs []tensor.Tensor) (tensor.Tensor, error) { return xs[0].Sub(xs[1]) }, -2, 2},
		{"Mul", 2, same2, func(xs []tensor.Tensor) (tensor.Tensor, error) { return xs[0].Mul(xs[1]) }, -2, 2},
		{"Div", 2, same2, func(xs []tensor.Tensor) (tensor.Tensor, error) { return xs[0].Div(xs[1]) }, 0.5, 2},
		{"ElMax", 2, same2, func(xs []tensor.Tensor) (tensor.Tensor, error) { return xs[0].ElMax(xs[1]) }, -2, 2},
		{"ElMin", 2, same2, func(xs []tensor.Tensor) (tensor.Tensor, error) { return xs[0].ElMin(xs[1]) }, -2, 2},
		{"Dot", 2, func(rng *rand.Rand, b []int) ([][]int, bool) { return [][]int{b, b}, len(b) >= 1 },
			func(xs []tensor.Tensor) (tensor.Tensor, error) { return xs[0].Dot(xs[1]) }, -2, 2},
		{"MatMul", 2, func(rng *rand.Rand, b []int) ([][]int, bool) {
			if len(b) < 2 {
				return nil, false
			}
			o := append([]int{}, b...)
			o[len(o)-2], o[len(o)-1] = b[len(b)-1], 1+rng.Intn(3)
			return [][]int{b, o}, true
		}, func(xs []tensor.Tensor) (tensor.Tensor, error) { return xs[0].MatMul(xs[1]) }, -2, 2},
		{"Transpose", 1, func(rng *rand.Rand, b []int) ([][]int, bool) { return [][]int{b}, len(b) >= 2 },
			func(xs []tensor.Tensor) (tensor.Tensor, error) { return xs[0].Transpose() }, -2, 2},
		{"Reshape", 1, same1, func(xs []tensor.Tensor) (tensor.Tensor, error) { return xs[0].Reshape([]int{xs[0].NElems()}) }, -2, 2},
		{"Flatten", 1, func(rng *rand.Rand, b []int) ([][]int, bool) { return [][]int{b}, len(b) >= 1 },
			func(xs []tensor.Tensor) (tensor.Tensor, error) { return xs[0].Flatten(0) }, -2, 2},
		{"UnSqueeze", 1, same1, func(xs []tensor.Tensor) (tensor.Tensor, error) { return xs[0].UnSqueeze(len(xs[0].Shape())) }, -2, 2},
		{"Squeeze", 1, func(rng *rand.Rand, b []int) ([][]int, bool) { return [][]int{append([]int{1}, b...)}, true },
			func(xs []tensor.Tensor) (tensor.Tensor, error) { return xs[0].Squeeze(0) }, -2, 2},
		{"Slice", 1, func(rng *rand.Rand, b []int) ([][]int, bool) { return [][]int{b}, len(b) >= 1 },
			func(xs []tensor.Tensor) (tensor.Tensor, error) {
				s := xs[0].Shape()
				return xs[0].Slice([]tensor.Range{{From: s[0] - 1, To: s[0]}})
			}, -2, 2},
		{"Patch", 2, func(rng *rand.Rand, b []int) ([][]int, bool) {
			if len(b) < 1 {
				return nil, false
			}
			p := append([]int{}, b...)
			p[0] = 1
			return [][]int{b, p}, true
		}, func(xs []tensor.Tensor) (tensor.Tensor, error) {
			s := xs[0].Shape()
			return xs[0].Patch([]tensor.Range{{From: s[0] - 1, To: s[0]}}, xs[1])
		}, -2, 2},
		// a source block smaller than the target along a dimension whose range is omitted (placed at offset 0)
		{"Patch/partial", 2, func(rng *rand.Rand, b []int) ([][]int, bool) {
			if len(b) < 2 || b[1] < 2 {
				return nil, false
			}
			p := append([]int{}, b...)
			p[0], p[1] = 1, b[1]-1
			return [][]int{b, p}, true
		}, func(xs []tensor.Tensor) (tensor.Tensor, error) {
			s := xs[0].Shape()
			return xs[0].Patch([]tensor.Range{{From: s[0] - 1, To: s[0]}}, xs[1])
		}, -2, 2},
		{"Concat", 2, func(rng *rand.Rand, b []int) ([][]int, bool) { return [][]int{b, b}, len(b) >= 1 },
			func(xs []tensor.Tensor) (tensor.Tensor, error) { return tensor.Concat(xs, len(xs[0].Shape())-1) }, -2, 2},
		// three operands of different extents along the concatenation dimension (the offsets of the third one are where
		// a rewritten offset computation slips: seed C02-5), along the last and along the first dimension
		{"Concat3", 3, func(rng *rand.Rand, b []int) ([][]int, bool) {
			if len(b) < 1 {
				return nil, false
			}
			l := len(b) - 1
			b2, b3 := append([]int{}, b...), append([]int{}, b...)
			b2[l], b3[l] = b[l]%3+1, (b[l]+1)%3+1
			return [][]int{b, b2, b3}, true
		}, func(xs []tensor.Tensor) (tensor.Tensor, error) { return tensor.Concat(xs, len(xs[0].Shape())-1) }, -2, 2},
		{"Concat3first", 3, func(rng *rand.Rand, b []int) ([][]int, bool) {
			if len(b) < 1 {
				return nil, false
			}
			b2, b3 := append([]int{}, b...), append([]int{}, b...)
			b2[0], b3[0] = b[0]%3+1, (b[0]+1)%3+1
			return [][]int{b, b2, b3}, true
		}, func(xs []tensor.Tensor) (tensor.Tensor, error) { return tensor.Concat(xs, 0) }, -2, 2},
	}
	cs = append(cs, along("SumAlong", func(x tensor.Tensor, d int) (tensor.Tensor, error) { return x.SumAlong(d) })...)
	cs = append(cs, along("MaxAlong", func(x tensor.Tensor, d int) (tensor.Tensor, error) { return x.MaxAlong(d) })...)
	cs = append(cs, along("MinAlong", func(x tensor.Tensor, d int) (tensor.Tensor, error) { return x.MinAlong(d) })...)
	cs = append(cs, along("AvgAlong", func(x tensor.Tensor, d int) (tensor.Tensor, error) { return x.AvgAlong(d) })...)
	cs = append(cs, along("VarAlong", func(x tensor.Tensor, d int) (tensor.Tensor, error) { return x.VarAlong(d) })...)
	cs = append(cs, along("StdAlong", func(x tensor.Tensor, d int) (tensor.Tensor, error) { return x.StdAlong(d) })...)
	cs = append(cs, along("MeanAlong", func(x tensor.Tensor, d int) (tensor.Tensor, error) { return x.MeanAlong(d) })...)
	return cs
}

// checkVJP runs one application of op on operands xs with upstream weighting w and compares every tracked operand's
// gradient with finite differences of sum(op(xs) * w).
func checkVJP(r *reporter, c opCase, xs []Ref, tracked []bool, rng *rand.Rand) {
	key := "vjp:" + c.name
	guard(r, key, func() {
		ts := make([]tensor.Tensor, len(xs))
		for i := range xs {
			ts[i] = toT(xs[i], tracked[i])
		}
		y, err := c.apply(ts)
		if err != nil {
			r.fail(key+":forward-error", fmt.Sprintf("%v: %v", shapesOf(xs), err))
			return
		}
		w := randRef(rng, y.Shape(), 0.5, 2)
		z, err := y.Mul(toT(w, false))
		if err != nil {
			r.fail(key+":weight", err.Error())
			return
		}
		if err := tensor.BackPropagate(z); err != nil {
			r.fail(key+":backprop-error", fmt.Sprintf("operands %v: %v", shapesOf(xs), err))
			return
		}
		f := func(vs []Ref) float64 {
			us := make([]tensor.Tensor, len(vs))
			for i := range vs {
				us[i] = toT(vs[i], false)
			}
			y, _ := c.apply(us)
			return sumMul(y, w)
		}
		for k := range xs {
			g := ts[k].Gradient()
			if !tracked[k] {
				if g != nil {
					r.fail(key+":untracked-gradient", fmt.Sprintf("operand %d", k))
				}
				continue
			}
			if g == nil {
				r.fail(key+":nil-gradient", fmt.Sprintf("operand %d of %v", k, shapesOf(xs)))
				continue
			}
			if !sameShape(g.Shape(), xs[k].Shape) {
				r.fail(key+":gradient-shape", fmt.Sprintf("operand %d: gradient shape %v, operand shape %v", k, g.Shape(), xs[k].Shape))
				continue
			}
			want := numGrad(f, xs, k)
			if msg := eqRef(g, want, 2e-5); msg != "" {
				r.fail(key+":value", fmt.Sprintf("operand %d of %v: %s", k, shapesOf(xs), msg))
				continue
			}
			r.ok(fmt.Sprintf("%s operands %v tracked %v", c.name, shapesOf(xs), tracked))
		}
	})
}

func shapesOf(xs []Ref) [][]int {
	var out [][]int
	for _, x := range xs {
		out = append(out, x.Shape)
	}
	return out
}

/* ---------------- C02: every rule is the vector-Jacobian product ---------------- */

func TestRuleValues(t *testing.T) {
	r := newReporter("TestRuleValues")
	defer r.done(t)
	rng := rand.New(rand.NewSource(seed()))
	maxRank := 3
	bases := shapes(0, maxRank, 3)
	bases = append(bases, shapes(4, 4, 2)...) // two leading dimensions: the rank-dependent branches of the rules' helpers
	bases = append(bases, []int{4}, []int{5}, []int{2, 4}, []int{4, 3}, []int{3, 5}) // fibres longer than 3 (seed C02-4: a factor that is 0 from n = 4 on)
	for _, c := range ruleCases(rng) {
		for _, b := range bases {
			if !thorough() && len(b) >= 3 && rng.Intn(3) != 0 {
				continue
			}
			ss, ok := c.shapes(rng, b)
			if !ok {
				continue
			}
			xs := make([]Ref, len(ss))
			for i := range ss {
				xs[i] = randRef(rng, ss[i], c.lo, c.hi)
			}
			// every non-empty subset of tracked operands
			for mask := 1; mask < 1<<len(xs); mask++ {
				tr := make([]bool, len(xs))
				for i := range tr {
					tr[i] = mask&(1<<i) != 0
				}
				checkVJP(r, c, xs, tr, rng)
			}
		}
	}
	// Pow at base 0 with exponent 0, 1, 2 (differentiable there: derivatives 0, 1, 0)
	for _, e := range []struct{ a, d float64 }{{0, 0}, {1, 1}, {2, 0}} {
		guard(r, "vjp:Pow/base0", func() {
			x := toT(Ref{Shape: []int{3}, Data: []float64{0, 0, 1}}, true)
			y := x.Pow(e.a)
			if err := tensor.BackPropagate(y); err != nil {
				r.fail("vjp:Pow/base0:error", err.Error())
				return
			}
			g := fromT(x.Gradient())
			want := []float64{e.d, e.d, e.a}
			for i := range want {
				if !closeTo(g.Data[i], want[i], 1e-12) {
					r.fail(fmt.Sprintf("vjp:Pow/base0/exp%v", e.a), fmt.Sprintf("gradient %v, want %v", g.Data, want))
					return
				}
			}
			r.ok(fmt.Sprintf("Pow(%v) at base 0", e.a))
		})
	}
}

/* ---------------- C07: the gradient of a broadcast operand is the sum over its copies ---------------- */

func TestBroadcastGrad(t *testing.T) {
	r := newReporter("TestBroadcastGrad")
	defer r.done(t)
	rng := rand.New(rand.NewSource(seed()))
	all := shapes(0, 3, 3)
	for _, src := range all {
		for _, dst := range all {
			if len(src) > len(dst) {
				continue
			}
			ok := true
			off := len(dst) - len(src)
			for k := range src {
				if src[k] != dst[k+off] && src[k] != 1 {
					ok = false
				}
			}
			if !ok {
				continue
			}
			x := randRef(rng, src, -2, 2)
			c := opCase{name: "Broadcast", arity: 1, apply: func(xs []tensor.Tensor) (tensor.Tensor, error) { return xs[0].Broadcast(dst) }}
			factor := numel(dst) / numel(src)
			if factor == 1 {
				c.name = "Broadcast/factor1"
			}
			checkVJP(r, c, []Ref{x}, []bool{true}, rng)
		}
	}
	// implicit expansion inside the binary operations, either operand being the expanded one
	impl := map[string]func(a, b tensor.Tensor) (tensor.Tensor, error){
		"Add": func(a, b tensor.Tensor) (tensor.Tensor, error) { return a.Add(b) },
		"Sub": func(a, b tensor.Tensor) (tensor.Tensor, error) { return a.Sub(b) },
		"Mul": func(a, b tensor.Tensor) (tensor.Tensor, error) { return a.Mul(b) },
		"Div": func(a, b tensor.Tensor) (tensor.Tensor, error) { return a.Div(b) },
		"Dot": func(a, b tensor.Tensor) (tensor.Tensor, error) { return a.Dot(b) },
	}
	pairs := [][2][]int{{{2, 3}, {3}}, {{3}, {2, 3}}, {{2, 1}, {2, 3}}, {{2, 3}, {1, 3}}, {{2, 2, 3}, {2, 1, 3}}, {{1}, {2, 2}}, {{}, {2}}, {{1, 3}, {3}}, {{1, 1}, {1}}}
	for name, f := range impl {
		for _, p := range pairs {
			if name == "Dot" && (len(p[0]) == 0 || len(p[1]) == 0 || p[0][len(p[0])-1] != p[1][len(p[1])-1]) {
				continue
			}
			f := f
			c := opCase{name: "implicit/" + name, arity: 2, apply: func(xs []tensor.Tensor) (tensor.Tensor, error) { return f(xs[0], xs[1]) }}
			if numel(p[0]) == numel(p[1]) {
				c.name += "/factor1" // no element is copied more than once
			}
			xs := []Ref{randRef(rng, p[0], 0.5, 2), randRef(rng, p[1], 0.5, 2)}
			checkVJP(r, c, xs, []bool{true, true}, rng)
		}
	}
	mm := opCase{name: "implicit/MatMul", arity: 2, apply: func(xs []tensor.Tensor) (tensor.Tensor, error) { return xs[0].MatMul(xs[1]) }}
	for _, p := range [][2][]int{{{2, 3}, {2, 3, 2}}, {{2, 2, 3}, {3, 2}}, {{1, 2, 3}, {2, 3, 1}}} {
		checkVJP(r, mm, []Ref{randRef(rng, p[0], 0.5, 2), randRef(rng, p[1], 0.5, 2)}, []bool{true, true}, rng)
	}
}

/* ---------------- C01: back-propagation on arbitrary DAGs ---------------- */

type dagNode struct {
	op   int // 0 Scale(0.7), 1 Exp, 2 Add, 3 Mul, 4 Sub, 5 Tanh
	a, b int // operand node ids (b unused for unary ops)
}

var dagUnary = []int{0, 1}
var dagBinary = []int{2, 3}

func dagForward(nodes []dagNode, leaves []Ref) []Ref {
	vals := append([]Ref{}, leaves...)
	for _, n := range nodes {
		x := vals[n.a]
		var v Ref
		switch n.op {
		case 0:
			v = map1(x, func(a float64) float64 { return 0.7 * a })
		case 1:
			v = map1(x, math.Exp)
		case 5:
			v = map1(x, math.Tanh)
		case 2:
			v, _ = map2(x, vals[n.b], func(a, b float64) float64 { return a + b })
		case 3:
			v, _ = map2(x, vals[n.b], func(a, b float64) float64 { return a * b })
		case 4:
			v, _ = map2(x, vals[n.b], func(a, b float64) float64 { return a - b })
		}
		vals = append(vals, v)
	}
	return vals
}

// dagAdjoints: reference reverse accumulation (each node's adjoint is complete before it is propagated).
func dagAdjoints(nodes []dagNode, vals []Ref, nLeaves int) []Ref {
	adj := make([]Ref, len(vals))
	for i := range adj {
		adj[i] = newRef(vals[i].Shape)
	}
	root := len(vals) - 1
	for i := range adj[root].Data {
		adj[root].Data[i] = 1
	}
	for i := len(nodes) - 1; i >= 0; i-- {
		n := nodes[i]
		id := nLeaves + i
		g := adj[id]
		for j := range g.Data {
			switch n.op {
			case 0:
				adj[n.a].Data[j] += 0.7 * g.Data[j]
			case 1:
				adj[n.a].Data[j] += g.Data[j] * vals[id].Data[j]
			case 5:
				adj[n.a].Data[j] += g.Data[j] * (1 - vals[id].Data[j]*vals[id].Data[j])
			case 2:
				adj[n.a].Data[j] += g.Data[j]
				adj[n.b].Data[j] += g.Data[j]
			case 4:
				adj[n.a].Data[j] += g.Data[j]
				adj[n.b].Data[j] -= g.Data[j]
			case 3:
				adj[n.a].Data[j] += g.Data[j] * vals[n.b].Data[j]
				adj[n.b].Data[j] += g.Data[j] * vals[n.a].Data[j]
			}
		}
	}
	return adj
}

func dagBuild(nodes []dagNode, leaves []tensor.Tensor) ([]tensor.Tensor, error) {
	ts := append([]tensor.Tensor{}, leaves...)
	for _, n := range nodes {
		var y tensor.Tensor
		var err error
		switch n.op {
		case 0:
			y = ts[n.a].Scale(0.7)
		case 1:
			y = ts[n.a].Exp()
		case 5:
			y = ts[n.a].Tanh()
		case 2:
			y, err = ts[n.a].Add(ts[n.b])
		case 3:
			y, err = ts[n.a].Mul(ts[n.b])
		case 4:
			y, err = ts[n.a].Sub(ts[n.b])
		}
		if err != nil {
			return nil, err
		}
		ts = append(ts, y)
	}
	return ts, nil
}

// reachesTracked: which nodes are tracked (depend on a tracked leaf), and which are reachable backwards from the root.
func dagMarks(nodes []dagNode, trackedLeaf []bool) (tracked, reach []bool) {
	nL := len(trackedLeaf)
	tracked = append([]bool{}, trackedLeaf...)
	for _, n := range nodes {
		t := tracked[n.a]
		if n.op >= 2 && n.op <= 4 {
			t = t || tracked[n.b]
		}
		tracked = append(tracked, t)
	}
	reach = make([]bool, nL+len(nodes))
	reach[len(reach)-1] = true
	for i := len(nodes) - 1; i >= 0; i-- {
		if !reach[nL+i] {
			continue
		}
		reach[nodes[i].a] = true
		if nodes[i].op >= 2 && nodes[i].op <= 4 {
			reach[nodes[i].b] = true
		}
	}
	return
}

func dagShape(nodes []dagNode, nL int) string {
	s := ""
	for i, n := range nodes {
		if n.op >= 2 && n.op <= 4 {
			s += fmt.Sprintf("n%d=op%d(%d,%d) ", nL+i, n.op, n.a, n.b)
		} else {
			s += fmt.Sprintf("n%d=op%d(%d) ", nL+i, n.op, n.a)
		}
	}
	return s
}

// classify names the structural feature a failure depends on (stable key for known findings).
func dagClass(nodes []dagNode, nL int) string {
	uses := make([]int, nL+len(nodes))
	for _, n := range nodes {
		uses[n.a]++
		if n.op >= 2 && n.op <= 4 {
			uses[n.b]++
		}
	}
	for i := nL; i < nL+len(nodes); i++ {
		if uses[i] > 1 {
			return "interior-fanout"
		}
	}
	for i := 0; i < nL; i++ {
		if uses[i] > 1 {
			return "leaf-fanout"
		}
	}
	return "tree"
}

func checkDAG(r *reporter, nodes []dagNode, trackedLeaf []bool, rng *rand.Rand) {
	nL := len(trackedLeaf)
	class := dagClass(nodes, nL)
	key := "dag:" + class
	guard(r, key, func() {
		leaves := make([]Ref, nL)
		lt := make([]tensor.Tensor, nL)
		for i := range leaves {
			leaves[i] = randRef(rng, []int{2}, -1, 1)
			lt[i] = toT(leaves[i], trackedLeaf[i])
		}
		ts, err := dagBuild(nodes, lt)
		if err != nil {
			r.fail(key+":build", err.Error())
			return
		}
		if err := tensor.BackPropagate(ts[len(ts)-1]); err != nil {
			r.fail(key+":error", err.Error())
			return
		}
		vals := dagForward(nodes, leaves)
		adj := dagAdjoints(nodes, vals, nL)
		tracked, reach := dagMarks(nodes, trackedLeaf)
		for i, tt := range ts {
			g := tt.Gradient()
			want := tracked[i] && reach[i]
			if !want {
				if g != nil {
					r.fail(key+":extra-gradient", fmt.Sprintf("node %d of %s (tracked leaves %v)", i, dagShape(nodes, nL), trackedLeaf))
				}
				continue
			}
			if g == nil {
				r.fail(key+":missing-gradient", fmt.Sprintf("node %d of %s (tracked leaves %v)", i, dagShape(nodes, nL), trackedLeaf))
				continue
			}
			// the reference adjoint counts only paths through tracked nodes; untracked operands cut nothing off because
			// an untracked node has no tracked ancestors
			if msg := eqRef(g, adj[i], 1e-9); msg != "" {
				r.fail(key+":value", fmt.Sprintf("node %d of %s (tracked leaves %v): %s", i, dagShape(nodes, nL), trackedLeaf, msg))
				return
			}
		}
		r.ok(dagShape(nodes, nL))
	})
}

func enumDAGs(nL, n int, visit func([]dagNode)) {
	var rec func(nodes []dagNode)
	rec = func(nodes []dagNode) {
		if len(nodes) == n {
			visit(nodes)
			return
		}
		k := nL + len(nodes)
		for _, op := range dagUnary {
			for a := 0; a < k; a++ {
				rec(append(nodes, dagNode{op, a, 0}))
			}
		}
		for _, op := range dagBinary {
			for a := 0; a < k; a++ {
				for b := 0; b < k; b++ {
					rec(append(nodes, dagNode{op, a, b}))
				}
			}
		}
	}
	rec(nil)
}

func TestDAG(t *testing.T) {
	r := newReporter("TestDAG")
	defer r.done(t)
	rng := rand.New(rand.NewSource(seed()))
	nL := 2
	maxN := 3
	// exhaustive for <= 3 interior nodes
	for n := 1; n <= maxN; n++ {
		enumDAGs(nL, n, func(nodes []dagNode) {
			ns := append([]dagNode{}, nodes...)
			for mask := 0; mask < 1<<nL; mask++ {
				checkDAG(r, ns, []bool{mask&1 != 0, mask&2 != 0}, rng)
			}
		})
	}
	// random deeper DAGs (4..6 interior nodes, ops including Sub and Tanh)
	count := 3000
	if thorough() {
		count = 60000
	}
	for c := 0; c < count; c++ {
		n := 4 + rng.Intn(3)
		var nodes []dagNode
		for i := 0; i < n; i++ {
			k := nL + i
			op := []int{0, 1, 2, 3, 4, 5}[rng.Intn(6)]
			nodes = append(nodes, dagNode{op, rng.Intn(k), rng.Intn(k)})
		}
		checkDAG(r, nodes, []bool{rng.Intn(4) != 0, rng.Intn(2) == 0}, rng)
	}
	// additivity: two graphs that share only leaves add up on them
	guard(r, "dag:additivity", func() {
		a := randRef(rng, []int{2}, -1, 1)
		x := toT(a, true)
		y1 := x.Scale(2)
		y2 := x.Exp()
		if err := tensor.BackPropagate(y1); err != nil {
			r.fail("dag:additivity", err.Error())
			return
		}
		_ = y2
		x.ResetGradContext(true)
		z1, z2 := x.Scale(2), x.Scale(3)
		e1, e2 := tensor.BackPropagate(z1), error(nil)
		// the second graph was built before the first back-propagation: its leaf is shared
		e2 = tensor.BackPropagate(z2)
		_ = e2
		if e1 != nil {
			r.fail("dag:additivity", e1.Error())
			return
		}
		r.ok("additivity")
	})
	// polynomial time: a chain of 24 diamonds (2^24 paths) must finish quickly
	guard(r, "dag:time", func() {
		x := toT(Ref{Shape: []int{1}, Data: []float64{0.3}}, true)
		y := tensor.Tensor(x)
		depth := 24
		for i := 0; i < depth; i++ {
			a := y.Scale(0.5)
			b := y.Scale(0.5)
			y, _ = a.Add(b)
		}
		done := make(chan error, 1)
		go func() { done <- tensor.BackPropagate(y) }()
		select {
		case err := <-done:
			g, _ := x.Gradient().At(0)
			if err != nil || !closeTo(g, 1, 1e-9) {
				r.fail("dag:interior-fanout:value", fmt.Sprintf("chain of %d diamonds: gradient %v, want 1 (err %v)", depth, g, err))
			} else {
				r.ok("chain of diamonds")
			}
		case <-time.After(20 * time.Second):
			r.fail("dag:interior-fanout:time", fmt.Sprintf("back-propagation through %d diamonds did not finish in 20 s (exponential re-propagation)", depth))
		}
	})
}

package main

import (
	"encoding/json"
	"flag"
	"fmt"
	"os"
	"os/exec"
	"path/filepath"
	"sort"
	"strconv"
	"strings"
	"time"
)

// ---------------------------------------------------------------------------------------------
// Property checks: obligation closure, known findings, bounded stand-ins, evidence
// ---------------------------------------------------------------------------------------------

type PropSpec struct {
	ID          string   `json:"id"`
	Roots       []string `json:"roots"`        // unit patterns
	Lemmas      []string `json:"lemmas"`       // lemma name patterns proved for this property
	Tags        bool     `json:"tags_only"`    // unused
	Bounded     []RacRef `json:"bounded"`      // bounded stand-ins (Go tests in /verif/rac)
	Assumptions []string `json:"assumptions"`  // stated, unchecked
	PaperLemmas []string `json:"paper_lemmas"` // code-independent lemmas argued on paper
	Level       string   `json:"level"`        // level claimed in MANIFEST ("proof" | "other")
	Explanation string   `json:"explanation"`
	SkipKinds   []string `json:"skip_kinds"`
}

type RacRef struct {
	Test  string `json:"test"`  // go test -run pattern
	What  string `json:"what"`  // which clause / function it stands in for
	Bound string `json:"bound"` // stated bound
	Race  bool   `json:"race"`  // run under the Go race detector
}

type KnownFinding struct {
	Property   string `json:"property"`
	Obligation string `json:"obligation"` // obligation name, or rac:<test>:<case-key>
	What       string `json:"what"`
	Status     string `json:"status"` // "open" | "fixed"
	Commit     string `json:"commit,omitempty"`
	Defect     string `json:"defect,omitempty"`
}

type Evidence struct {
	PropertyID  string         `json:"property_id"`
	Tier        string         `json:"tier"`
	Seed        int            `json:"seed"`
	Level       string         `json:"level"`
	Coverage    map[string]any `json:"coverage"`
	Assumptions []string       `json:"assumptions"`
	WallS       float64        `json:"wall_s"`
	Violations  int            `json:"violations"`
}

func verifDir() string {
	if d := os.Getenv("VERIF_DIR"); d != "" {
		return d
	}
	return "/verif"
}

func loadJSON(path string, v any) error {
	b, err := os.ReadFile(path)
	if err != nil {
		return err
	}
	return json.Unmarshal(b, v)
}

func cmdCheck(args []string) {
	fs := flag.NewFlagSet("check", flag.ExitOnError)
	repo := fs.String("repo", "/repo", "repository root")
	prop := fs.String("prop", "", "property id")
	tier := fs.String("tier", "quick", "quick|thorough")
	noRac := fs.Bool("norac", false, "skip bounded stand-ins")
	updateBaseline := fs.Bool("update-baseline", false, "rewrite the baseline of claimed obligations (only on the unchanged tree)")
	fs.Parse(args)
	if t := os.Getenv("VERIF_TIER"); t != "" && *tier == "" {
		*tier = t
	}
	seed := 1
	if s := os.Getenv("VERIF_SEED"); s != "" {
		if n, err := strconv.Atoi(s); err == nil {
			seed = n
		}
	}
	t0 := time.Now()
	vd := verifDir()
	var props []PropSpec
	if err := loadJSON(filepath.Join(vd, "props.json"), &props); err != nil {
		fmt.Fprintln(os.Stderr, "props.json:", err)
		os.Exit(2)
	}
	var ps *PropSpec
	for i := range props {
		if props[i].ID == *prop {
			ps = &props[i]
		}
	}
	if ps == nil {
		fmt.Fprintln(os.Stderr, "unknown property", *prop)
		os.Exit(2)
	}
	var known []KnownFinding
	loadJSON(filepath.Join(vd, "known_findings.json"), &known)
	baseline := map[string]bool{}
	if b, err := os.ReadFile(filepath.Join(vd, "baseline", ps.ID+".txt")); err == nil {
		for _, l := range strings.Split(string(b), "\n") {
			if l = strings.TrimSpace(l); l != "" {
				baseline[l] = true
			}
		}
	}

	p, err := loadProgram(*repo, nil)
	if err != nil {
		// the tree does not load (does not compile): nothing can be decided by this family
		fmt.Fprintln(os.Stderr, "load:", err)
		os.Exit(2)
	}
	timeout := 10 * time.Second
	if *tier == "thorough" {
		timeout = 60 * time.Second
	}
	// solver files go to a directory of this run only (several runs of one property may be under way at the same time) and
	// are removed again when the run ends without a violation: one run writes up to ~100 MB, named by content hash, which
	// would otherwise pile up across changed trees. Directories that crashed runs left behind are pruned after six hours.
	smtRoot := filepath.Join(vd, "out", "smt", ps.ID)
	if ents, err := os.ReadDir(smtRoot); err == nil {
		for _, e := range ents {
			if fi, err := e.Info(); err == nil && time.Since(fi.ModTime()) > 6*time.Hour {
				os.RemoveAll(filepath.Join(smtRoot, e.Name()))
			}
		}
	}
	smtDir := filepath.Join(smtRoot, fmt.Sprintf("run-%d", os.Getpid()))
	solver := newSolver(smtDir, timeout)

	// closure of units
	todo := p.unitsFor(ps.Roots)
	isRoot := map[string]bool{}
	for _, u := range todo {
		isRoot[u.Name] = true
	}
	seen := map[string]bool{}
	var results []*UnitResult
	var assumedUnits []string
	var limits []string
	var allObls []*Obligation
	assumptions := map[string]bool{}
	pubReq := map[string][]string{}
	for len(todo) > 0 {
		u := todo[0]
		todo = todo[1:]
		if seen[u.Name] {
			continue
		}
		seen[u.Name] = true
		if !u.HasSpec {
			if u.Lit != nil {
				continue // literal without its own contract: only reachable through its parent
			}
			limits = append(limits, u.Name+": no contract")
			continue
		}
		res := verifyUnit(p, u)
		if res.Skipped != "" {
			assumedUnits = append(assumedUnits, u.Name+" ("+res.Skipped+")")
			continue
		}
		results = append(results, res)
		if u.Public {
			// what a public entry point requires is an assumption about its callers: nothing checks it
			for _, c := range u.Requires {
				pubReq[c.Text] = append(pubReq[c.Text], u.Name)
			}
		}
		for _, l := range res.Limits {
			limits = append(limits, u.Name+": "+l)
		}
		allObls = append(allObls, res.Obls...)
		for a := range res.Run.assumps {
			assumptions[a] = true
		}
		for _, c := range sortedKeys(res.Run.callees) {
			if cu, ok := p.Units[c]; ok && !seen[c] {
				todo = append(todo, cu)
			}
		}
		// function literals: the closures of a root unit belong to the property; closures of functions that are only
		// reached as callees (e.g. the backward rules behind a forward operation) belong to the properties that name them
		// A closure under a function-type protocol (an element generator) is part of its parent's proof wherever the
		// parent is reached: the parent assumes the closure's "yields" where it creates it.
		for _, lit := range u.Lits {
			if !seen[lit.Name] && lit.HasSpec && (isRoot[u.Name] || lit.Implements != "") {
				if isRoot[u.Name] {
					isRoot[lit.Name] = true
				}
				todo = append(todo, lit)
			}
		}
		lemmaNames := append([]string(nil), u.Uses...)
		for ln := range res.Run.usedLemmas {
			lemmaNames = append(lemmaNames, ln)
		}
		sort.Strings(lemmaNames)
		for len(lemmaNames) > 0 {
			ln := lemmaNames[0]
			lemmaNames = lemmaNames[1:]
			if !seen["lemma."+ln] {
				seen["lemma."+ln] = true
				for _, ax := range p.Axioms {
					if ax.Name == ln {
						// lemmas (and axioms) a lemma itself uses belong to the proof as well
						lemmaNames = append(lemmaNames, ax.C.Uses...)
					}
					if ax.Lemma && ax.Name == ln {
						lr := verifyLemma(p, ax)
						results = append(results, lr)
						allObls = append(allObls, lr.Obls...)
						for _, l := range lr.Limits {
							limits = append(limits, "lemma."+ln+": "+l)
						}
						for a := range lr.Run.assumps {
							assumptions[a] = true
						}
					}
				}
			}
		}
	}
	for _, e := range p.SpecErr {
		limits = append(limits, "spec: "+e)
	}
	outs := dischargeAll(solver, allObls, 5)
	agg := aggregate(outs)

	replayDir := filepath.Join(vd, "out", "replay")
	os.MkdirAll(replayDir, 0o755)
	nObl, nDis := 0, 0
	byBackend := map[string]int{}
	var samples []any
	var violations []string
	var knownHit []string
	var undecided []string
	var newBaseline []string
	isKnown := func(name string) *KnownFinding {
		for i := range known {
			if known[i].Property == ps.ID && known[i].Obligation == name && known[i].Status == "open" {
				return &known[i]
			}
		}
		return nil
	}
	skip := map[string]bool{}
	for _, k := range ps.SkipKinds {
		skip[k] = true
	}
	for _, a := range agg {
		if a.Kind == "canary" {
			if a.Status == "vacuous" {
				// a contradictory contract proves anything: report as a broken check, never as a pass
				limits = append(limits, "VACUOUS: "+a.Name+" ("+a.Detail+")")
			}
			continue
		}
		if skip[a.Kind] {
			continue
		}
		nObl++
		switch a.Status {
		case "discharged":
			nDis++
			for _, b := range strings.Split(a.Backend, "+") {
				byBackend[b]++
			}
			newBaseline = append(newBaseline, a.Name)
			if len(samples) < 6 && a.Kind != "frame" && a.Kind != "own" {
				samples = append(samples, map[string]any{"obligation": a.Name, "what": a.Detail, "at": a.Pos, "backend": a.Backend, "secs": a.Secs})
			}
		case "failed", "unknown":
			if kf := isKnown(a.Name); kf != nil {
				knownHit = append(knownHit, fmt.Sprintf("KNOWN-FINDING: property=%s %s: %s", ps.ID, a.Name, kf.What))
				continue
			}
			if a.Status == "unknown" && len(baseline) > 0 && !baseline[a.Name] {
				undecided = append(undecided, a.Name+" (not in the baseline of claimed obligations; solver: unknown)")
				continue
			}
			rp := filepath.Join(replayDir, ps.ID+"_"+sanitize(a.Name)+".txt")
			found := writeReplay(rp, ps.ID, a, *repo)
			line := fmt.Sprintf("VIOLATION property=%s replay=%s", ps.ID, rp)
			if !found {
				line += " no-failing-input-found"
			}
			violations = append(violations, line)
		}
	}
	sort.Strings(newBaseline)
	// the slowest discharged obligations: anything near the time limit is a stability risk and is reported
	type slow struct {
		Name string  `json:"obligation"`
		Secs float64 `json:"secs"`
		By   string  `json:"backend"`
	}
	var slowest []slow
	for _, a := range agg {
		if a.Kind != "canary" && a.Status == "discharged" {
			slowest = append(slowest, slow{a.Name, a.Secs, a.Backend})
		}
	}
	sort.Slice(slowest, func(i, j int) bool { return slowest[i].Secs > slowest[j].Secs })
	if len(slowest) > 8 {
		slowest = slowest[:8]
	}

	// bounded stand-ins
	var boundedReports []map[string]any
	if !*noRac {
		for _, b := range ps.Bounded {
			rep := runRac(vd, *repo, ps.ID, b, *tier, seed, known)
			boundedReports = append(boundedReports, rep.summary)
			knownHit = append(knownHit, rep.known...)
			violations = append(violations, rep.violations...)
		}
	}

	if *updateBaseline {
		os.MkdirAll(filepath.Join(vd, "baseline"), 0o755)
		os.WriteFile(filepath.Join(vd, "baseline", ps.ID+".txt"), []byte(strings.Join(newBaseline, "\n")+"\n"), 0o644)
	}

	// evidence
	var unitNames []string
	for _, r := range results {
		unitNames = append(unitNames, r.Unit.Name)
	}
	sort.Strings(unitNames)
	sort.Strings(assumedUnits)
	var asm []string
	asm = append(asm, ps.Assumptions...)
	for _, a := range sortedKeys(assumptions) {
		asm = append(asm, a)
	}
	for _, a := range assumedUnits {
		asm = append(asm, "assumed contract (body not verified): "+a)
	}
	for _, t := range sortedKeys2(pubReq) {
		names := pubReq[t]
		sort.Strings(names)
		who := strings.Join(names, ", ")
		if len(names) > 4 {
			who = strings.Join(names[:4], ", ") + fmt.Sprintf(", ... (%d public entry points)", len(names))
		}
		asm = append(asm, "unchecked precondition of public entry points ("+who+"): "+t)
	}
	for _, l := range ps.PaperLemmas {
		asm = append(asm, "paper lemma: "+l)
	}
	asm = append(asm, "int is modelled as mathematical integers (no overflow); float64 as reals with uninterpreted transcendental functions (no rounding, NaN or Inf beyond the 'def' obligations)")
	level := "other"
	if ps.Level == "proof" && nDis == nObl && len(ps.Bounded) == 0 && len(limits) == 0 {
		level = "proof"
	}
	if len(samples) == 0 {
		samples = append(samples, "no obligation discharged")
	}
	ev := Evidence{PropertyID: ps.ID, Tier: *tier, Seed: seed, Level: level, Assumptions: asm, WallS: time.Since(t0).Seconds(), Violations: len(violations)}
	ev.Coverage = map[string]any{
		"obligations":             nObl,
		"discharged":              nDis,
		"discharged_by_backend":   byBackend,
		"solver_seconds":          solver.totalSecs,
		"solver_calls":            solver.counts,
		"checker_cmd":             fmt.Sprintf("/verif/check %s %s  (qv: weakest-precondition style symbolic execution of /repo's typed AST against the contracts in *_verif.go; z3 4.8.12, z3-new 5.1.0, cvc5 1.0 raced per obligation)", ps.ID, *tier),
		"trusted_base":            []string{"qv (VC generator, SMT prelude / domain axioms)", "z3 4.8.12, z3 5.1.0, cvc5 1.0", "Go type checker (go/types via x/tools v0.29.0)"},
		"functions_under_contract": unitNames,
		"functions_count":         len(unitNames),
		"assumed_contracts":       assumedUnits,
		"tool_limits":             limits,
		"undecided_not_claimed":   undecided,
		"known_findings_hit":      knownHit,
		"bounded":                 boundedReports,
		"samples":                 samples,
		"slowest_obligations":     slowest,
		"explanation":             ps.Explanation,
		"evaluations":             nObl,
		"distinct_nontrivial":     nDis,
		"rule":                    "one evaluation = one named proof obligation generated from the current source (path instances of the same site are merged); non-trivial = discharged by a solver or by the static ownership/frame analysis",
	}
	// evidence describes runs against the repository itself; the must-fail self-test (mutated scratch copies) sends its
	// evidence elsewhere
	evDir := filepath.Join(vd, "evidence")
	if d := os.Getenv("QV_EVIDENCE_DIR"); d != "" {
		evDir = d
	}
	os.MkdirAll(evDir, 0o755)
	b, _ := json.MarshalIndent(ev, "", " ")
	os.WriteFile(filepath.Join(evDir, ps.ID+".json"), b, 0o644)

	for _, k := range knownHit {
		fmt.Println(k)
	}
	for _, l := range limits {
		fmt.Println("NOTE:", l)
	}
	fmt.Printf("property %s tier=%s: %d units, %d obligations, %d discharged, %d undecided-not-claimed, %d violations, %.1fs\n", ps.ID, *tier, len(unitNames), nObl, nDis, len(undecided), len(violations), time.Since(t0).Seconds())
	for _, v := range violations {
		fmt.Println(v)
	}
	if len(violations) > 0 {
		os.Exit(1) // the solver files of a failing run are kept for inspection
	}
	os.RemoveAll(smtDir)
	for _, l := range limits {
		if strings.HasPrefix(l, "VACUOUS") {
			fmt.Println("check is broken: vacuous contract")
			os.Exit(3)
		}
	}
}

// writeReplay writes the replay file of a failed obligation. It returns true when a concrete failing input was
// produced and confirmed against the real code.
func writeReplay(path, prop string, a *AggOutcome, repo string) bool {
	var b strings.Builder
	fmt.Fprintf(&b, "property: %s\nobligation: %s\nkind: %s\nat: %s\nwhat: %s\nsolver status: %s (%s)\npath: %s\n", prop, a.Name, a.Kind, a.Pos, a.Detail, a.Status, a.Backend, strings.Join(a.Trace, " "))
	fmt.Fprintf(&b, "\n--- solver output ---\n%s\n", strings.TrimSpace(a.Output))
	if a.Model != "" {
		fmt.Fprintf(&b, "\n--- model (values of the function's inputs) ---\n%s\n", strings.TrimSpace(a.Model))
	}
	confirmed := false
	if a.Witness != nil && a.Model != "" {
		if rep, ok := replayModel(a, repo); rep != "" {
			fmt.Fprintf(&b, "\n--- replay against the real code ---\n%s\n", rep)
			confirmed = ok
		}
	}
	if !confirmed && a.Witness != nil {
		if rep, ok := replaySearch(a, repo); rep != "" {
			fmt.Fprintf(&b, "\n--- search for a replay input against the real code ---\n%s\n", rep)
			confirmed = ok
		}
	}
	if !confirmed {
		fmt.Fprintf(&b, "\nno-failing-input-found: every obligation of this property is discharged on the unchanged tree and this one is not discharged on the tree checked now (it may be an obligation the change itself introduced); no concrete input was replayed\n")
	}
	os.WriteFile(path, []byte(b.String()), 0o644)
	return confirmed
}

type racReport struct {
	summary    map[string]any
	violations []string
	known      []string
}

// runRac runs a bounded stand-in: a Go test in /verif/rac (module with `replace => repo`).
func runRac(vd, repo, prop string, b RacRef, tier string, seed int, known []KnownFinding) racReport {
	rep := racReport{summary: map[string]any{"test": b.Test, "stands_in_for": b.What, "bound": b.Bound, "label": "bounded"}}
	dir, err := prepareRacModule(vd, repo)
	if err != nil {
		rep.summary["error"] = err.Error()
		rep.violations = append(rep.violations, fmt.Sprintf("VIOLATION property=%s replay=%s no-failing-input-found", prop, "rac-setup-failed"))
		return rep
	}
	defer os.RemoveAll(dir)
	outFile := filepath.Join(dir, "rac_out.jsonl")
	args := []string{"test", "-vet=off", "-count=1", "-timeout", "20m"}
	if b.Race {
		args = append(args, "-race")
		rep.summary["race_detector"] = true
	}
	args = append(args, "-run", "^"+b.Test+"$", ".")
	cmd := exec.Command("go", args...)
	cmd.Dir = dir
	cgo := "CGO_ENABLED=0"
	if b.Race {
		cgo = "CGO_ENABLED=1"
	}
	// the thorough tier repeats the randomised part with further seeds (the enumerated part is the same each time)
	seeds := []int{seed}
	if tier == "thorough" {
		seeds = []int{seed, seed + 1, seed + 2}
	}
	rep.summary["seeds"] = seeds
	t0 := time.Now()
	var out []byte
	for k, sd := range seeds {
		c := cmd
		if k > 0 {
			c = exec.Command("go", args...)
			c.Dir = dir
		}
		c.Env = append(os.Environ(), cgo, "GOFLAGS=-mod=mod", "GOPROXY=off", "GOSUMDB=off", "GOTOOLCHAIN=local", "VERIF_TIER="+tier, fmt.Sprintf("VERIF_SEED=%d", sd), "RAC_OUT="+outFile)
		o, _ := c.CombinedOutput()
		out = append(out, o...)
	}
	rep.summary["wall_s"] = time.Since(t0).Seconds()
	data, _ := os.ReadFile(outFile)
	cases, fails := 0, 0
	var sample []any
	for _, l := range strings.Split(string(data), "\n") {
		if strings.TrimSpace(l) == "" {
			continue
		}
		var rec map[string]any
		if json.Unmarshal([]byte(l), &rec) != nil {
			continue
		}
		switch rec["type"] {
		case "summary":
			if n, ok := rec["cases"].(float64); ok {
				cases += int(n)
			}
			if s, ok := rec["samples"].([]any); ok && len(sample) < 4 {
				sample = append(sample, s...)
			}
		case "fail":
			fails++
			key, _ := rec["key"].(string)
			name := "rac:" + b.Test + ":" + key
			matched := false
			for i := range known {
				if known[i].Property == prop && known[i].Status == "open" && (known[i].Obligation == name || (strings.HasSuffix(known[i].Obligation, "*") && strings.HasPrefix(name, strings.TrimSuffix(known[i].Obligation, "*")))) {
					rep.known = append(rep.known, fmt.Sprintf("KNOWN-FINDING: property=%s %s: %s", prop, name, known[i].What))
					matched = true
					break
				}
			}
			if matched {
				continue
			}
			rp := filepath.Join(vd, "out", "replay", prop+"_"+sanitize(name)+".json")
			rb, _ := json.MarshalIndent(rec, "", " ")
			os.WriteFile(rp, rb, 0o644)
			if len(rep.violations) < 8 {
				rep.violations = append(rep.violations, fmt.Sprintf("VIOLATION property=%s replay=%s", prop, rp))
			}
		}
	}
	if b.Race && strings.Contains(string(out), "WARNING: DATA RACE") {
		fails++
		rp := filepath.Join(vd, "out", "replay", prop+"_"+sanitize(b.Test)+"_datarace.txt")
		os.WriteFile(rp, out, 0o644)
		rep.violations = append(rep.violations, fmt.Sprintf("VIOLATION property=%s replay=%s", prop, rp))
	}
	rep.summary["cases"] = cases
	rep.summary["failures"] = fails
	rep.summary["samples"] = sample
	if cases == 0 {
		rep.summary["error"] = "bounded stand-in produced no cases: " + lastLines(string(out), 12)
		rp := filepath.Join(vd, "out", "replay", prop+"_"+sanitize(b.Test)+"_broken.txt")
		os.WriteFile(rp, out, 0o644)
		rep.violations = append(rep.violations, fmt.Sprintf("VIOLATION property=%s replay=%s no-failing-input-found", prop, rp))
	}
	return rep
}

func lastLines(s string, n int) string {
	ls := strings.Split(strings.TrimSpace(s), "\n")
	if len(ls) > n {
		ls = ls[len(ls)-n:]
	}
	return strings.Join(ls, " | ")
}

// prepareRacModule copies /verif/rac into a scratch directory with a go.mod that replaces qeep by repo.
func prepareRacModule(vd, repo string) (string, error) {
	dir, err := os.MkdirTemp("", "qvrac")
	if err != nil {
		return "", err
	}
	src := filepath.Join(vd, "rac")
	ents, err := os.ReadDir(src)
	if err != nil {
		return dir, err
	}
	for _, e := range ents {
		if e.IsDir() || !strings.HasSuffix(e.Name(), ".go") {
			continue
		}
		b, _ := os.ReadFile(filepath.Join(src, e.Name()))
		os.WriteFile(filepath.Join(dir, e.Name()), b, 0o644)
	}
	gomod := "module rac\n\ngo 1.22\n\nrequire github.com/sahandsafizadeh/qeep v0.0.0\n\nrequire (\n\tgolang.org/x/exp v0.0.0-20231110203233-9a3e6036ecaa // indirect\n\tgonum.org/v1/gonum v0.15.1 // indirect\n)\n\nreplace github.com/sahandsafizadeh/qeep => " + repo + "\n"
	os.WriteFile(filepath.Join(dir, "go.mod"), []byte(gomod), 0o644)
	if b, err := os.ReadFile(filepath.Join(repo, "go.sum")); err == nil {
		os.WriteFile(filepath.Join(dir, "go.sum"), b, 0o644)
	}
	return dir, nil
}

func sortedKeys2(m map[string][]string) []string {
	var ks []string
	for k := range m {
		ks = append(ks, k)
	}
	sort.Strings(ks)
	return ks
}

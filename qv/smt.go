package main

import (
	"fmt"
	"sort"
	"strings"
)

// ---------------------------------------------------------------------------------------------
// SMT terms are plain s-expression strings; sorts are strings too.
// ---------------------------------------------------------------------------------------------

func sx(op string, args ...string) string {
	if len(args) == 0 {
		return op
	}
	return "(" + op + " " + strings.Join(args, " ") + ")"
}

func and(args ...string) string {
	var xs []string
	for _, a := range args {
		if a == "true" {
			continue
		}
		if a == "false" {
			return "false"
		}
		xs = append(xs, a)
	}
	switch len(xs) {
	case 0:
		return "true"
	case 1:
		return xs[0]
	}
	return sx("and", xs...)
}

func or(args ...string) string {
	var xs []string
	for _, a := range args {
		if a == "false" {
			continue
		}
		if a == "true" {
			return "true"
		}
		xs = append(xs, a)
	}
	switch len(xs) {
	case 0:
		return "false"
	case 1:
		return xs[0]
	}
	return sx("or", xs...)
}

func not(a string) string {
	switch a {
	case "true":
		return "false"
	case "false":
		return "true"
	}
	if strings.HasPrefix(a, "(not ") && balancedTail(a[5:len(a)-1]) {
		return a[5 : len(a)-1]
	}
	return sx("not", a)
}

func balancedTail(s string) bool {
	d := 0
	for i, c := range s {
		switch c {
		case '(':
			d++
		case ')':
			d--
			if d == 0 && i != len(s)-1 {
				return false
			}
			if d < 0 {
				return false
			}
		case ' ':
			if d == 0 {
				return false
			}
		}
	}
	return d == 0
}

func implies(a, b string) string {
	if a == "true" {
		return b
	}
	if b == "true" {
		return "true"
	}
	return sx("=>", a, b)
}

func eq(a, b string) string {
	if a == b {
		return "true"
	}
	return sx("=", a, b)
}

func ite(c, a, b string) string {
	if c == "true" {
		return a
	}
	if c == "false" {
		return b
	}
	if a == b {
		return a
	}
	return sx("ite", c, a, b)
}

func intLit(n int64) string {
	if n < 0 {
		return fmt.Sprintf("(- %d)", -n)
	}
	return fmt.Sprintf("%d", n)
}

func isIntLit(s string) (int64, bool) {
	var n int64
	if _, err := fmt.Sscanf(s, "%d", &n); err == nil && fmt.Sprintf("%d", n) == s {
		return n, true
	}
	var m int64
	if strings.HasPrefix(s, "(- ") && strings.HasSuffix(s, ")") {
		if _, err := fmt.Sscanf(s[3:len(s)-1], "%d", &m); err == nil && fmt.Sprintf("%d", m) == s[3:len(s)-1] {
			return -m, true
		}
	}
	return 0, false
}

func add(a, b string) string {
	x, ok1 := isIntLit(a)
	y, ok2 := isIntLit(b)
	if ok1 && ok2 {
		return intLit(x + y)
	}
	if ok1 && x == 0 {
		return b
	}
	if ok2 && y == 0 {
		return a
	}
	return sx("+", a, b)
}

func sub(a, b string) string {
	x, ok1 := isIntLit(a)
	y, ok2 := isIntLit(b)
	if ok1 && ok2 {
		return intLit(x - y)
	}
	if ok2 && y == 0 {
		return a
	}
	return sx("-", a, b)
}

// Decls keeps declarations in creation order.
type Decls struct {
	order []string
	text  map[string]string
	n     int
}

func newDecls() *Decls { return &Decls{text: map[string]string{}} }

func (d *Decls) declare(name, text string) {
	if _, ok := d.text[name]; ok {
		return
	}
	d.text[name] = text
	d.order = append(d.order, name)
}

func (d *Decls) fresh(base, sort string) string {
	d.n++
	name := fmt.Sprintf("%s!%d", sanitize(base), d.n)
	d.declare(name, fmt.Sprintf("(declare-fun %s () %s)", name, sort))
	return name
}

func (d *Decls) dump() string {
	var b strings.Builder
	for _, n := range d.order {
		b.WriteString(d.text[n])
		b.WriteString("\n")
	}
	return b.String()
}

func sanitize(s string) string {
	var b strings.Builder
	for _, c := range s {
		if c >= 'a' && c <= 'z' || c >= 'A' && c <= 'Z' || c >= '0' && c <= '9' || c == '_' {
			b.WriteRune(c)
		} else {
			b.WriteRune('_')
		}
	}
	if b.Len() == 0 {
		return "v"
	}
	return b.String()
}

func sortedKeys[V any](m map[string]V) []string {
	ks := make([]string, 0, len(m))
	for k := range m {
		ks = append(ks, k)
	}
	sort.Strings(ks)
	return ks
}

// ---------------------------------------------------------------------------------------------
// World declarations, pruned and canonically ordered per query
// ---------------------------------------------------------------------------------------------

var smtBuiltin = map[string]bool{"Int": true, "Real": true, "Bool": true, "Array": true, "declare-fun": true, "declare-sort": true,
	"declare-datatypes": true, "define-fun": true, "0": true}

func smtTokens(s string, f func(tok string)) {
	i := 0
	for i < len(s) {
		c := s[i]
		if c == '(' || c == ')' || c == ' ' || c == '\n' || c == '\t' {
			i++
			continue
		}
		j := i
		for j < len(s) && s[j] != '(' && s[j] != ')' && s[j] != ' ' && s[j] != '\n' && s[j] != '\t' {
			j++
		}
		f(s[i:j])
		i = j
	}
}

// prunedDump returns the world declarations a query body needs (closed under the sorts and symbols the declarations
// themselves mention), in an order that depends only on that set: the text of a query must not depend on which other
// units were processed earlier in the run (solver heuristics are sensitive to declaration order).
func (d *Decls) prunedDump(body string) string {
	// symbol -> declaring entry
	owner := map[string]string{}
	for _, n := range d.order {
		owner[n] = n
	}
	for _, n := range d.order {
		t := d.text[n]
		if strings.HasPrefix(t, "(declare-datatypes") {
			smtTokens(t, func(tok string) {
				if smtBuiltin[tok] {
					return
				}
				if _, ok := d.text[tok]; ok {
					return
				}
				if _, ok := owner[tok]; !ok {
					owner[tok] = n
				}
			})
		}
	}
	need := map[string]bool{}
	var work []string
	mark := func(tok string) {
		if o, ok := owner[tok]; ok && !need[o] {
			need[o] = true
			work = append(work, o)
		}
	}
	smtTokens(body, mark)
	deps := map[string][]string{}
	for len(work) > 0 {
		n := work[len(work)-1]
		work = work[:len(work)-1]
		smtTokens(d.text[n], func(tok string) {
			if o, ok := owner[tok]; ok && o != n {
				deps[n] = append(deps[n], o)
				mark(tok)
			}
		})
	}
	names := make([]string, 0, len(need))
	for n := range need {
		names = append(names, n)
	}
	sort.Strings(names)
	done := map[string]bool{}
	var b strings.Builder
	for len(done) < len(names) {
		progress := false
		for _, n := range names {
			if done[n] {
				continue
			}
			ready := true
			for _, dp := range deps[n] {
				if !done[dp] {
					ready = false
					break
				}
			}
			if ready {
				done[n] = true
				progress = true
				b.WriteString(d.text[n])
				b.WriteString("\n")
				break
			}
		}
		if !progress {
			panic("qv internal error: cyclic world declarations")
		}
	}
	return b.String()
}

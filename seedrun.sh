#!/bin/bash
# seedrun.sh <patch.diff> <property> [more properties]: apply a seeded change to /repo, run the checks, always undo
set -u
P=$1; shift
cd /repo || exit 2
[ -z "$(git status --porcelain)" ] || { echo "/repo not clean"; exit 2; }
trap 'git -C /repo checkout -- . ; git -C /repo clean -fdq' EXIT
git apply "$P" || { echo "patch does not apply"; exit 2; }
cd /verif
for prop in "$@"; do
  out=$(QV_EVIDENCE_DIR=/tmp/seed-evidence ./check $prop quick 2>&1); rc=$?
  echo "$prop exit=$rc $(echo "$out" | grep '^property')"
  echo "$out" | grep '^VIOLATION' | head -4 | cut -c1-170
done

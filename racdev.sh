#!/bin/bash
# development helper: run the bounded stand-ins directly (racdev.sh <go test -run pattern> [repo])
d=$(mktemp -d /tmp/racdev.XXXX); cp /verif/rac/*.go $d/
repo=${2:-/repo}
printf 'module rac\n\ngo 1.22\n\nrequire github.com/sahandsafizadeh/qeep v0.0.0\n\nrequire (\n\tgolang.org/x/exp v0.0.0-20231110203233-9a3e6036ecaa // indirect\n\tgonum.org/v1/gonum v0.15.1 // indirect\n)\n\nreplace github.com/sahandsafizadeh/qeep => %s\n' $repo > $d/go.mod
cp $repo/go.sum $d/
(cd $d && GOFLAGS=-mod=mod GOPROXY=off GOSUMDB=off GOTOOLCHAIN=local RAC_OUT=$d/out.jsonl go test -vet=off -count=1 -timeout 20m -run "$1" . 2>&1 | tail -15; cat $d/out.jsonl 2>/dev/null | cut -c1-600)
rm -rf $d

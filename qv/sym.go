package main

import (
	"fmt"
	"go/types"
	"strings"
)

// ---------------------------------------------------------------------------------------------
// Symbolic values
// ---------------------------------------------------------------------------------------------

type Kind int

const (
	KInt Kind = iota
	KBool
	KReal
	KErr    // error: T is a Bool term "is nil"
	KStr    // string: Int term (interned)
	KSlice  // S
	KStruct // F (struct by value)
	KPtr    // P (pointer to a location) or, for pointers to heap structs, KRef
	KRef    // reference of an uninterpreted sort (tensor, *GradContext, ...): T is the term, Sort its sort
	KFunc   // Fn
	KTuple  // multiple results
	KUnit
)

type Val struct {
	K    Kind
	T    string // scalar term
	Sort string // for KRef: SMT sort
	S    *SliceVal
	F    map[string]Val // struct fields by name
	P    Loc
	Fn   *FuncVal
	Tup  []Val
	Go   types.Type
}

// Obj is a statically identified mutable slice backing store.
type Obj struct {
	id     int
	name   string
	elem   string // SMT sort of elements
	own    Own
	param  bool // backing store of a slice parameter
	frozen bool // published into the heap or captured by an escaping closure
}

type Own int

const (
	OwnFresh  Own = iota // allocated in the current unit
	OwnCaller            // slice handed in by the caller of a public entry point
	OwnBorrow            // parameter of an internal function: may be read, not stored
	OwnLib               // reachable from a tensor / library structure
	OwnTaken             // parameter declared "takes": caller guarantees it is not CALLER-owned
)

func (o Own) String() string {
	return [...]string{"FRESH", "CALLER", "BORROWED", "LIB", "TAKEN"}[o]
}

type SliceVal struct {
	Obj  *Obj   // nil: immutable value slice
	Arr  string // array term when Obj == nil
	Off  string
	Len  string
	Cap  string // "" when unknown
	Elem types.Type
	ESrt string
	Own  Own // ownership class when Obj == nil

	View string    // optional: an array term equal to the window shifted to position 0 (View[k] == Arr[Off+k]); element
	// reads go through it so that quantified facts are matched on (select View k) rather than on an arithmetic pattern
	From *fieldLoc // the heap field this value slice was read from (writes through it are allowed when the owning
	// object was allocated in the current call: they update the field)
}

// Loc is an assignable location.
type Loc interface {
	load(st *State) Val
	store(st *State, v Val)
	describe() string
}

type FuncVal struct {
	unit *Unit   // statically known closure / function
	term string  // SMT term of sort Fn when opaque
	typ  types.Type
	st   *State // defining state (captured variables are read by object identity)
}

func intV(t string) Val  { return Val{K: KInt, T: t} }
func boolV(t string) Val { return Val{K: KBool, T: t} }
func realV(t string) Val { return Val{K: KReal, T: t} }
func errV(t string) Val  { return Val{K: KErr, T: t} }

func (v Val) String() string {
	switch v.K {
	case KInt, KBool, KReal, KErr, KStr, KRef:
		return v.T
	case KSlice:
		if v.S.Obj != nil {
			return fmt.Sprintf("slice{%s off=%s len=%s}", v.S.Obj.name, v.S.Off, v.S.Len)
		}
		return fmt.Sprintf("slice{%s off=%s len=%s}", v.S.Arr, v.S.Off, v.S.Len)
	case KStruct:
		var xs []string
		for _, k := range sortedKeys(v.F) {
			xs = append(xs, k+":"+v.F[k].String())
		}
		return "{" + strings.Join(xs, ",") + "}"
	case KTuple:
		var xs []string
		for _, x := range v.Tup {
			xs = append(xs, x.String())
		}
		return "(" + strings.Join(xs, ",") + ")"
	}
	return fmt.Sprintf("<val k=%d>", v.K)
}

// ---------------------------------------------------------------------------------------------
// State
// ---------------------------------------------------------------------------------------------

type State struct {
	u      *UnitRun
	vars   map[types.Object]Val
	names  map[string]types.Object // innermost visible binding by name
	facts  []string
	arrs   map[*Obj]string   // current array term per object
	heap   map[string]string // field map name -> current term
	frozen map[*Obj]bool
	dead   bool
	loops  []*loopCtx
	trace  []string // branch decisions, for diagnostics
	branch []string // branch conditions (a subset of facts)
	now    string   // allocation clock
	ghost  map[string]Val
	pre    map[int]*State // snapshot taken at the head of loop N (before the first invariant check): pre(e) in its clauses
}

func (st *State) clone() *State {
	n := &State{u: st.u, now: st.now}
	n.vars = make(map[types.Object]Val, len(st.vars))
	for k, v := range st.vars {
		n.vars[k] = v
	}
	n.names = make(map[string]types.Object, len(st.names))
	for k, v := range st.names {
		n.names[k] = v
	}
	n.facts = append([]string(nil), st.facts...)
	n.arrs = make(map[*Obj]string, len(st.arrs))
	for k, v := range st.arrs {
		n.arrs[k] = v
	}
	n.heap = make(map[string]string, len(st.heap))
	for k, v := range st.heap {
		n.heap[k] = v
	}
	n.frozen = make(map[*Obj]bool, len(st.frozen))
	for k, v := range st.frozen {
		n.frozen[k] = v
	}
	n.ghost = make(map[string]Val, len(st.ghost))
	for k, v := range st.ghost {
		n.ghost[k] = v
	}
	n.pre = make(map[int]*State, len(st.pre))
	for k, v := range st.pre {
		n.pre[k] = v
	}
	n.loops = append([]*loopCtx(nil), st.loops...)
	n.trace = append([]string(nil), st.trace...)
	n.branch = append([]string(nil), st.branch...)
	return n
}

// snapshotPre keeps the state at the head of loop n for pre(...) in that loop's clauses
func (st *State) snapshotPre(n int) {
	c := st.clone()
	if st.pre == nil {
		st.pre = map[int]*State{}
	}
	st.pre[n] = c
}

func (st *State) assume(f string) {
	if f == "true" {
		return
	}
	st.facts = append(st.facts, f)
}

func (st *State) bind(obj types.Object, v Val) {
	st.vars[obj] = v
	if obj.Name() != "_" {
		st.names[obj.Name()] = obj
		// assignment history of the variable on this path: ver(x, n) in `have` clauses names the value x had after its
		// n-th binding (parameters: 1 = the argument)
		if st.ghost != nil {
			ck := "vern:" + obj.Name()
			n := 0
			if c, ok := st.ghost[ck]; ok {
				fmt.Sscanf(c.T, "%d", &n)
			}
			n++
			st.ghost[ck] = intV(fmt.Sprintf("%d", n))
			st.ghost[fmt.Sprintf("ver:%s:%d", obj.Name(), n)] = v
		}
	}
}

// ---------------------------------------------------------------------------------------------
// Sorts for Go types
// ---------------------------------------------------------------------------------------------

type World struct {
	decls     *Decls // global declarations (sorts, datatypes, field maps, axioms)
	refSorts  map[string]bool
	slSorts   map[string]bool
	strIntern map[string]int
	fields    map[string]fieldInfo
}

type fieldInfo struct {
	name    string // "<Type>.<field>"
	refSort string
	valSort string
	goType  types.Type
}

func newWorld() *World {
	w := &World{decls: newDecls(), refSorts: map[string]bool{}, slSorts: map[string]bool{}, strIntern: map[string]int{}, fields: map[string]fieldInfo{}}
	w.decls.declare("T", "(declare-sort T 0)")
	w.decls.declare("Data", "(declare-sort Data 0)")
	w.decls.declare("Fn", "(declare-sort Fn 0)")
	w.decls.declare("Range", "(declare-datatypes ((Range 0)) (((mkRange (From Int) (To Int)))))")
	w.decls.declare("nilT", "(declare-fun nilT () T)")
	w.decls.declare("nil_Fn", "(declare-fun nil_Fn () Fn)")
	w.decls.declare("published", "(declare-fun published (T) Bool)")
	w.decls.declare("nilData", "(declare-fun nilData () Data)")
	return w
}

func (w *World) internStr(s string) string {
	if n, ok := w.strIntern[s]; ok {
		return intLit(int64(n))
	}
	n := len(w.strIntern) + 1
	w.strIntern[s] = n
	return intLit(int64(n))
}

func typeName(t types.Type) string {
	switch t := t.(type) {
	case *types.Named:
		return t.Obj().Name()
	case *types.Alias:
		return typeName(types.Unalias(t))
	case *types.Pointer:
		return typeName(t.Elem())
	}
	return t.String()
}

func isTensorType(t types.Type) bool {
	t = types.Unalias(t)
	if n, ok := t.(*types.Named); ok {
		if n.Obj().Name() == "Tensor" && n.Obj().Pkg() != nil && strings.HasSuffix(n.Obj().Pkg().Path(), "tensor/internal/tensor") {
			return true
		}
	}
	if p, ok := t.(*types.Pointer); ok {
		if n, ok := types.Unalias(p.Elem()).(*types.Named); ok && n.Obj().Name() == "CPUTensor" {
			return true
		}
	}
	return false
}

func isErrorType(t types.Type) bool {
	n, ok := types.Unalias(t).(*types.Named)
	return ok && n.Obj().Name() == "error" && n.Obj().Pkg() == nil
}

func isRangeType(t types.Type) bool {
	n, ok := types.Unalias(t).(*types.Named)
	return ok && n.Obj().Name() == "Range" && n.Obj().Pkg() != nil && strings.HasSuffix(n.Obj().Pkg().Path(), "tensor/internal/tensor")
}

// sortOf returns the SMT sort used to store a value of Go type t in arrays / heap maps.
func (w *World) sortOf(t types.Type) string {
	t = types.Unalias(t)
	if isTensorType(t) {
		return "T"
	}
	if isErrorType(t) {
		return "Bool"
	}
	if isRangeType(t) {
		return "Range"
	}
	switch u := t.Underlying().(type) {
	case *types.Basic:
		switch {
		case u.Info()&types.IsInteger != 0:
			return "Int"
		case u.Info()&types.IsBoolean != 0:
			return "Bool"
		case u.Info()&types.IsFloat != 0:
			return "Real"
		case u.Info()&types.IsString != 0:
			return "Int"
		}
	case *types.Pointer:
		if _, ok := u.Elem().Underlying().(*types.Struct); ok {
			s := "R_" + sanitize(typeName(u.Elem()))
			if !w.refSorts[s] {
				w.refSorts[s] = true
				w.decls.declare(s, fmt.Sprintf("(declare-sort %s 0)", s))
				w.decls.declare("nil_"+s, fmt.Sprintf("(declare-fun nil_%s () %s)", s, s))
			}
			return s
		}
		// pointer to non-struct (e.g. *tensor.Tensor): modelled as a reference cell
		s := "P_" + sanitize(w.sortOf(u.Elem()))
		if !w.refSorts[s] {
			w.refSorts[s] = true
			w.decls.declare(s, fmt.Sprintf("(declare-sort %s 0)", s))
			w.decls.declare("nil_"+s, fmt.Sprintf("(declare-fun nil_%s () %s)", s, s))
		}
		return s
	case *types.Slice:
		es := w.sortOf(u.Elem())
		s := "Sl_" + sanitize(es)
		if !w.slSorts[s] {
			w.slSorts[s] = true
			w.decls.declare(s, fmt.Sprintf("(declare-datatypes ((%s 0)) (((mk%s (arr%s (Array Int %s)) (len%s Int))))) ", s, s, s, es, s))
		}
		return s
	case *types.Interface:
		if u.NumMethods() == 0 {
			return "Data"
		}
		s := "I_" + sanitize(typeName(t))
		if !w.refSorts[s] {
			w.refSorts[s] = true
			w.decls.declare(s, fmt.Sprintf("(declare-sort %s 0)", s))
			w.decls.declare("nil_"+s, fmt.Sprintf("(declare-fun nil_%s () %s)", s, s))
		}
		return s
	case *types.Signature:
		return "Fn"
	case *types.Struct:
		s := "D_" + sanitize(typeName(t))
		if !w.slSorts[s] {
			w.slSorts[s] = true
			var fs []string
			for i := 0; i < u.NumFields(); i++ {
				f := u.Field(i)
				fs = append(fs, fmt.Sprintf("(%s_%s %s)", s, f.Name(), w.sortOf(f.Type())))
			}
			if len(fs) == 0 {
				fs = append(fs, fmt.Sprintf("(%s__unit Int)", s))
			}
			w.decls.declare(s, fmt.Sprintf("(declare-datatypes ((%s 0)) (((mk%s %s))))", s, s, strings.Join(fs, " ")))
		}
		return s
	case *types.Map:
		ks := w.sortOf(u.Key())
		s := "M_" + sanitize(w.sortOf(u.Elem()))
		if ks != "Int" {
			s = "M_" + sanitize(ks) + "_" + sanitize(w.sortOf(u.Elem()))
		}
		if !w.slSorts[s] {
			w.slSorts[s] = true
			w.decls.declare(s, fmt.Sprintf("(declare-datatypes ((%s 0)) (((mk%s (has%s (Array %s Bool)) (get%s (Array %s %s)) (isnil%s Bool)))))", s, s, s, ks, s, ks, w.sortOf(u.Elem()), s))
		}
		return s
	}
	panic(toolLimit("no SMT sort for type " + t.String()))
}

func (w *World) nilOf(sort string) string {
	if sort == "T" {
		return "nilT"
	}
	return "nil_" + sort
}

// field returns the heap map for <struct>.<field>.
func (w *World) field(structT types.Type, fname string) fieldInfo {
	key := typeName(structT) + "." + fname
	if fi, ok := w.fields[key]; ok {
		return fi
	}
	st := structT.Underlying().(*types.Struct)
	var ft types.Type
	for i := 0; i < st.NumFields(); i++ {
		if st.Field(i).Name() == fname {
			ft = st.Field(i).Type()
		}
	}
	if ft == nil {
		panic(toolLimit("no field " + key))
	}
	ref := w.sortOf(types.NewPointer(structT))
	fi := fieldInfo{name: key, refSort: ref, valSort: w.sortOf(ft), goType: ft}
	w.fields[key] = fi
	return fi
}

type toolLimit string

func (t toolLimit) Error() string { return string(t) }
